//! Back-end of the `notify` shim: watchers register their event handler here (per run);
//! the harness delivers events to them from a simulated "watcher thread".
use crate::{enter, Mode};
use std::any::Any;
use std::path::PathBuf;
use std::sync::{Arc, Mutex};

/// A registered handler: `Box<dyn FnMut(Box<dyn Any + Send>) + Send>`; the shim downcasts the payload to `notify::Result<Event>`.
pub type Handler = Arc<Mutex<Box<dyn FnMut(Box<dyn Any + Send>) + Send>>>;

#[derive(Default)]
pub struct Registry {
    pub watchers: Vec<WatcherEntry>,
}
pub struct WatcherEntry {
    pub handler: Option<Handler>,
    pub paths: Vec<PathBuf>,
    pub alive: bool,
}

/// Register a handler; returns its index (0 outside a run, where nothing is registered).
pub fn register(h: Handler) -> usize {
    let _rt = crate::RtGuard::new();
    match enter() {
        Mode::Sim(mut c) => {
            let r = c.notify_registry();
            r.watchers.push(WatcherEntry { handler: Some(h), paths: vec![], alive: true });
            r.watchers.len() - 1
        }
        _ => usize::MAX,
    }
}
pub fn add_path(idx: usize, p: PathBuf) {
    let _rt = crate::RtGuard::new();
    if let Mode::Sim(mut c) = enter() {
        if let Some(w) = c.notify_registry().watchers.get_mut(idx) {
            w.paths.push(p);
        }
    }
}
/// Called when the watcher object is dropped: the back-end stops delivering and releases the handler.
pub fn unregister(idx: usize) {
    let _rt = crate::RtGuard::new();
    // like the real back-end, the event loop stops and drops the handler (after the delivery in progress, if any)
    let h = match enter() {
        Mode::Sim(mut c) => match c.notify_registry().watchers.get_mut(idx) {
            Some(w) => {
                w.alive = false;
                w.handler.take()
            }
            None => None,
        },
        _ => None,
    };
    drop(h);
}
pub fn watcher_count() -> usize {
    let _rt = crate::RtGuard::new();
    match enter() {
        Mode::Sim(mut c) => c.notify_registry().watchers.len(),
        _ => 0,
    }
}
pub fn watcher_info(idx: usize) -> Option<(bool, Vec<PathBuf>)> {
    let _rt = crate::RtGuard::new();
    match enter() {
        Mode::Sim(mut c) => c.notify_registry().watchers.get(idx).map(|w| (w.alive, w.paths.clone())),
        _ => None,
    }
}
/// Deliver one payload to watcher `idx` on the calling (simulated) thread. Returns false if the watcher is gone.
pub fn deliver(idx: usize, payload: Box<dyn Any + Send>) -> bool {
    let _rt = crate::RtGuard::new();
    let h = match enter() {
        Mode::Sim(mut c) => match c.notify_registry().watchers.get(idx) {
            Some(w) if w.alive => match &w.handler {
                Some(h) => h.clone(),
                None => return false,
            },
            _ => return false,
        },
        _ => return false,
    };
    crate::yield_point("notify.deliver");
    {
        let mut g = h.lock().unwrap_or_else(|e| e.into_inner());
        (g)(payload);
    }
    drop(h);
    true
}
