//! Simulated locks with the `std::sync` API: `LockResult`, poisoning on panic, guards passed by value to `Condvar::wait`.
//! Returned errors are the real `std::sync::PoisonError`, so the library's own poison handling runs unchanged.
use crate::sync::{RawCondvar, RawMutex, RawRwLock};
use std::cell::UnsafeCell;
use std::sync::atomic::{AtomicBool, Ordering};
pub use std::sync::{LockResult, PoisonError};

fn result<G>(poisoned: &AtomicBool, g: G) -> LockResult<G> {
    if poisoned.load(Ordering::Relaxed) {
        crate::count("reach.poisoned_lock_acquired");
        Err(PoisonError::new(g))
    } else {
        Ok(g)
    }
}

pub struct Mutex<T: ?Sized> {
    raw: RawMutex,
    poisoned: AtomicBool,
    data: UnsafeCell<T>,
}
unsafe impl<T: ?Sized + Send> Send for Mutex<T> {}
unsafe impl<T: ?Sized + Send> Sync for Mutex<T> {}
pub struct MutexGuard<'a, T: ?Sized> {
    m: &'a Mutex<T>,
    panicking_at_lock: bool,
}
impl<T> Mutex<T> {
    pub const fn new(t: T) -> Self {
        Mutex { raw: RawMutex::new(), poisoned: AtomicBool::new(false), data: UnsafeCell::new(t) }
    }
    pub fn into_inner(self) -> LockResult<T> {
        let p = self.poisoned.load(Ordering::Relaxed);
        let v = self.data.into_inner();
        if p {
            Err(PoisonError::new(v))
        } else {
            Ok(v)
        }
    }
}
impl<T: Default> Default for Mutex<T> {
    fn default() -> Self {
        Self::new(T::default())
    }
}
impl<T: ?Sized> Mutex<T> {
    pub fn lock(&self) -> LockResult<MutexGuard<'_, T>> {
        self.raw.lock();
        result(&self.poisoned, MutexGuard { m: self, panicking_at_lock: std::thread::panicking() })
    }
    pub fn get_mut(&mut self) -> LockResult<&mut T> {
        let p = self.poisoned.load(Ordering::Relaxed);
        let v = self.data.get_mut();
        if p {
            Err(PoisonError::new(v))
        } else {
            Ok(v)
        }
    }
    pub fn is_poisoned(&self) -> bool {
        self.poisoned.load(Ordering::Relaxed)
    }
}
impl<T: ?Sized> Drop for MutexGuard<'_, T> {
    fn drop(&mut self) {
        if !self.panicking_at_lock && std::thread::panicking() {
            self.m.poisoned.store(true, Ordering::Relaxed);
        }
        self.m.raw.unlock();
    }
}
impl<T: ?Sized> std::ops::Deref for MutexGuard<'_, T> {
    type Target = T;
    fn deref(&self) -> &T {
        unsafe { &*self.m.data.get() }
    }
}
impl<T: ?Sized> std::ops::DerefMut for MutexGuard<'_, T> {
    fn deref_mut(&mut self) -> &mut T {
        unsafe { &mut *self.m.data.get() }
    }
}

#[derive(Default)]
pub struct Condvar {
    raw: RawCondvarD,
}
struct RawCondvarD(RawCondvar);
impl Default for RawCondvarD {
    fn default() -> Self {
        RawCondvarD(RawCondvar::new())
    }
}
impl Condvar {
    pub const fn new() -> Self {
        Condvar { raw: RawCondvarD(RawCondvar::new()) }
    }
    pub fn wait<'a, T: ?Sized>(&self, guard: MutexGuard<'a, T>) -> LockResult<MutexGuard<'a, T>> {
        self.raw.0.wait(&guard.m.raw);
        let p = &guard.m.poisoned;
        result(p, guard)
    }
    pub fn notify_all(&self) {
        self.raw.0.notify_all();
    }
    pub fn notify_one(&self) {
        self.raw.0.notify_one();
    }
}

pub struct RwLock<T: ?Sized> {
    raw: RawRwLock,
    poisoned: AtomicBool,
    data: UnsafeCell<T>,
}
unsafe impl<T: ?Sized + Send> Send for RwLock<T> {}
unsafe impl<T: ?Sized + Send + Sync> Sync for RwLock<T> {}
pub struct RwLockReadGuard<'a, T: ?Sized> {
    l: &'a RwLock<T>,
}
pub struct RwLockWriteGuard<'a, T: ?Sized> {
    l: &'a RwLock<T>,
    panicking_at_lock: bool,
}
impl<T> RwLock<T> {
    pub const fn new(t: T) -> Self {
        RwLock { raw: RawRwLock::new(), poisoned: AtomicBool::new(false), data: UnsafeCell::new(t) }
    }
    pub fn into_inner(self) -> LockResult<T> {
        let p = self.poisoned.load(Ordering::Relaxed);
        let v = self.data.into_inner();
        if p {
            Err(PoisonError::new(v))
        } else {
            Ok(v)
        }
    }
}
impl<T: Default> Default for RwLock<T> {
    fn default() -> Self {
        Self::new(T::default())
    }
}
impl<T: ?Sized> RwLock<T> {
    pub fn get_mut(&mut self) -> LockResult<&mut T> {
        let p = self.poisoned.load(Ordering::Relaxed);
        let v = self.data.get_mut();
        if p {
            Err(PoisonError::new(v))
        } else {
            Ok(v)
        }
    }
    pub fn read(&self) -> LockResult<RwLockReadGuard<'_, T>> {
        self.raw.read();
        result(&self.poisoned, RwLockReadGuard { l: self })
    }
    pub fn write(&self) -> LockResult<RwLockWriteGuard<'_, T>> {
        self.raw.write();
        result(&self.poisoned, RwLockWriteGuard { l: self, panicking_at_lock: std::thread::panicking() })
    }
    pub fn is_poisoned(&self) -> bool {
        self.poisoned.load(Ordering::Relaxed)
    }
}
impl<T: ?Sized> Drop for RwLockReadGuard<'_, T> {
    fn drop(&mut self) {
        self.l.raw.unlock(false);
    }
}
impl<T: ?Sized> Drop for RwLockWriteGuard<'_, T> {
    fn drop(&mut self) {
        if !self.panicking_at_lock && std::thread::panicking() {
            self.l.poisoned.store(true, Ordering::Relaxed);
        }
        self.l.raw.unlock(true);
    }
}
impl<T: ?Sized> std::ops::Deref for RwLockReadGuard<'_, T> {
    type Target = T;
    fn deref(&self) -> &T {
        unsafe { &*self.l.data.get() }
    }
}
impl<T: ?Sized> std::ops::Deref for RwLockWriteGuard<'_, T> {
    type Target = T;
    fn deref(&self) -> &T {
        unsafe { &*self.l.data.get() }
    }
}
impl<T: ?Sized> std::ops::DerefMut for RwLockWriteGuard<'_, T> {
    fn deref_mut(&mut self) -> &mut T {
        unsafe { &mut *self.l.data.get() }
    }
}
