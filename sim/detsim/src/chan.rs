//! Simulated unbounded MPSC/MPMC channel with crossbeam-channel's API subset:
//! `unbounded`, `Sender::{send, clone}`, `Receiver::{try_recv, recv, clone}`, `Select::{new, recv, ready}`.
//! Semantics mirrored from crossbeam (checked by the fidelity tests): FIFO; `try_recv` on a
//! disconnected channel drains remaining messages first; `send` fails once every receiver is gone;
//! `Select::ready` reports a receiver as ready when it is non-empty **or disconnected**.
use crate::{enter, yield_point, Mode, Status};
use std::cell::{Cell, UnsafeCell};
use std::collections::VecDeque;
use std::sync::Arc;

struct Inner<T> {
    id: u64,
    /// None = unbounded
    cap: Option<usize>,
    q: UnsafeCell<VecDeque<T>>,
    senders: Cell<usize>,
    receivers: Cell<usize>,
}
unsafe impl<T: Send> Send for Inner<T> {}
unsafe impl<T: Send> Sync for Inner<T> {}

pub struct Sender<T>(Arc<Inner<T>>);
pub struct Receiver<T>(Arc<Inner<T>>);
#[derive(PartialEq, Eq, Clone, Copy)]
pub struct SendError<T>(pub T);
impl<T> std::fmt::Debug for SendError<T> {
    fn fmt(&self, f: &mut std::fmt::Formatter<'_>) -> std::fmt::Result {
        f.pad("SendError(..)")
    }
}
impl<T> std::fmt::Display for SendError<T> {
    fn fmt(&self, f: &mut std::fmt::Formatter<'_>) -> std::fmt::Result {
        f.pad("sending on a disconnected channel")
    }
}
impl<T> std::error::Error for SendError<T> {}
#[derive(Debug, PartialEq, Eq, Clone, Copy)]
pub enum TryRecvError {
    Empty,
    Disconnected,
}
impl std::fmt::Display for TryRecvError {
    fn fmt(&self, f: &mut std::fmt::Formatter<'_>) -> std::fmt::Result {
        f.pad(match self {
            TryRecvError::Empty => "receiving on an empty channel",
            TryRecvError::Disconnected => "receiving on an empty and disconnected channel",
        })
    }
}
impl std::error::Error for TryRecvError {}
#[derive(Debug, PartialEq, Eq, Clone, Copy)]
pub struct RecvError;

/// Bounded channel: `send` blocks (in the simulator) while the queue is full.
pub fn bounded<T>(cap: usize) -> (Sender<T>, Receiver<T>) {
    let _rt = crate::RtGuard::new();
    let i = Arc::new(Inner { id: crate::new_obj(), cap: Some(cap.max(1)), q: UnsafeCell::new(VecDeque::new()), senders: Cell::new(1), receivers: Cell::new(1) });
    (Sender(i.clone()), Receiver(i))
}
pub fn unbounded<T>() -> (Sender<T>, Receiver<T>) {
    let _rt = crate::RtGuard::new();
    let i = Arc::new(Inner { id: crate::new_obj(), cap: None, q: UnsafeCell::new(VecDeque::new()), senders: Cell::new(1), receivers: Cell::new(1) });
    (Sender(i.clone()), Receiver(i))
}
impl<T> std::fmt::Debug for Sender<T> {
    fn fmt(&self, f: &mut std::fmt::Formatter<'_>) -> std::fmt::Result {
        f.pad("Sender { .. }")
    }
}
impl<T> std::fmt::Debug for Receiver<T> {
    fn fmt(&self, f: &mut std::fmt::Formatter<'_>) -> std::fmt::Result {
        f.pad("Receiver { .. }")
    }
}

/// Run `f` with the runtime lock held (or alone, outside a run).
fn locked<R>(f: impl FnOnce(Option<&mut crate::Ctx>) -> R) -> R {
    let _rt = crate::RtGuard::new();
    match enter() {
        Mode::Sim(mut c) => f(Some(&mut c)),
        // Outside a run there is one thread; in teardown threads are unwound one at a time.
        Mode::Outside | Mode::Ending => f(None),
    }
}

impl<T> Sender<T> {
    pub fn send(&self, t: T) -> Result<(), SendError<T>> {
        let _rt = crate::RtGuard::new();
        yield_point("send");
        let mut t = Some(t);
        loop {
            match enter() {
                Mode::Outside | Mode::Ending => {
                    if self.0.receivers.get() == 0 {
                        return Err(SendError(t.take().unwrap()));
                    }
                    unsafe {
                        (*self.0.q.get()).push_back(t.take().unwrap());
                    }
                    return Ok(());
                }
                Mode::Sim(mut c) => {
                    if self.0.receivers.get() == 0 {
                        return Err(SendError(t.take().unwrap()));
                    }
                    let full = self.0.cap.map(|cap| unsafe { (*self.0.q.get()).len() } >= cap).unwrap_or(false);
                    if full {
                        c.count("reach.bounded_channel_full");
                        c.block(Status::Blocked, "send(full)", vec![self.0.id], false);
                        continue;
                    }
                    unsafe {
                        (*self.0.q.get()).push_back(t.take().unwrap());
                    }
                    c.log(0x60, self.0.id, 0);
                    c.wake(self.0.id);
                    return Ok(());
                }
            }
        }
    }
    pub fn len(&self) -> usize {
        let _rt = crate::RtGuard::new();
        locked(|_| unsafe { (*self.0.q.get()).len() })
    }
    pub fn is_empty(&self) -> bool {
        let _rt = crate::RtGuard::new();
        self.len() == 0
    }
}
impl<T> Clone for Sender<T> {
    fn clone(&self) -> Self {
        let _rt = crate::RtGuard::new();
        locked(|_| self.0.senders.set(self.0.senders.get() + 1));
        Sender(self.0.clone())
    }
}
impl<T> Drop for Sender<T> {
    fn drop(&mut self) {
        let _rt = crate::RtGuard::new();
        locked(|c| {
            self.0.senders.set(self.0.senders.get() - 1);
            if self.0.senders.get() == 0 {
                if let Some(c) = c {
                    c.log(0x62, self.0.id, 0);
                    c.wake(self.0.id);
                }
            }
        });
    }
}
impl<T> Clone for Receiver<T> {
    fn clone(&self) -> Self {
        let _rt = crate::RtGuard::new();
        locked(|_| self.0.receivers.set(self.0.receivers.get() + 1));
        Receiver(self.0.clone())
    }
}
impl<T> Drop for Receiver<T> {
    fn drop(&mut self) {
        let _rt = crate::RtGuard::new();
        let q = locked(|c| {
            self.0.receivers.set(self.0.receivers.get() - 1);
            if self.0.receivers.get() == 0 {
                // senders blocked on a full queue learn that nobody will ever receive
                if let Some(c) = c {
                    c.wake(self.0.id);
                }
                unsafe { std::mem::take(&mut *self.0.q.get()) }
            } else {
                VecDeque::new()
            }
        });
        // messages are dropped outside the runtime lock: their destructors may call back into the simulator
        drop(q);
    }
}
impl<T> Receiver<T> {
    pub fn try_recv(&self) -> Result<T, TryRecvError> {
        let _rt = crate::RtGuard::new();
        yield_point("try_recv");
        locked(|c| match unsafe { (*self.0.q.get()).pop_front() } {
            Some(t) => {
                if let Some(c) = c {
                    c.log(0x63, self.0.id, 1);
                    if self.0.cap.is_some() {
                        c.wake(self.0.id);
                    }
                }
                Ok(t)
            }
            None => {
                if self.0.senders.get() == 0 {
                    Err(TryRecvError::Disconnected)
                } else {
                    Err(TryRecvError::Empty)
                }
            }
        })
    }
    pub fn recv(&self) -> Result<T, RecvError> {
        let _rt = crate::RtGuard::new();
        yield_point("recv");
        loop {
            match enter() {
                Mode::Outside | Mode::Ending => {
                    return unsafe { (*self.0.q.get()).pop_front() }.ok_or(RecvError);
                }
                Mode::Sim(mut c) => {
                    if let Some(t) = unsafe { (*self.0.q.get()).pop_front() } {
                        c.log(0x63, self.0.id, 2);
                        return Ok(t);
                    }
                    if self.0.senders.get() == 0 {
                        return Err(RecvError);
                    }
                    c.block(Status::Blocked, "recv", vec![self.0.id], false);
                }
            }
        }
    }
    pub fn len(&self) -> usize {
        let _rt = crate::RtGuard::new();
        locked(|_| unsafe { (*self.0.q.get()).len() })
    }
    pub fn is_empty(&self) -> bool {
        let _rt = crate::RtGuard::new();
        self.len() == 0
    }
    /// Blocking iterator: ends when the channel is empty and every sender is gone.
    pub fn iter(&self) -> Iter<'_, T> {
        Iter(self)
    }
    /// Non-blocking iterator: ends at the first moment the channel is empty.
    pub fn try_iter(&self) -> TryIter<'_, T> {
        TryIter(self)
    }
    /// The simulation has no clock: with an empty channel a timeout is a legal outcome at any moment, so the
    /// scheduler decides between "timed out now" and "wait for a message" (a wait that nothing can end times out).
    pub fn recv_timeout(&self, _d: std::time::Duration) -> Result<T, RecvTimeoutError> {
        match self.try_recv() {
            Ok(t) => return Ok(t),
            Err(TryRecvError::Disconnected) => return Err(RecvTimeoutError::Disconnected),
            Err(TryRecvError::Empty) => {}
        }
        if crate::decide(2) == 0 {
            crate::count("reach.recv_timeout_fired");
            return Err(RecvTimeoutError::Timeout);
        }
        self.recv().map_err(|_| RecvTimeoutError::Disconnected)
    }
    pub fn recv_deadline(&self, _t: std::time::Instant) -> Result<T, RecvTimeoutError> {
        self.recv_timeout(std::time::Duration::ZERO)
    }
    /// (non-empty, disconnected) — must be called with the runtime lock held
    fn state(&self) -> (bool, bool) {
        (unsafe { !(*self.0.q.get()).is_empty() }, self.0.senders.get() == 0)
    }
}

#[derive(Debug, PartialEq, Eq, Clone, Copy)]
pub enum RecvTimeoutError {
    Timeout,
    Disconnected,
}
impl std::fmt::Display for RecvTimeoutError {
    fn fmt(&self, f: &mut std::fmt::Formatter<'_>) -> std::fmt::Result {
        write!(f, "{self:?}")
    }
}
impl std::error::Error for RecvTimeoutError {}
pub struct Iter<'a, T>(&'a Receiver<T>);
impl<T> Iterator for Iter<'_, T> {
    type Item = T;
    fn next(&mut self) -> Option<T> {
        self.0.recv().ok()
    }
}
pub struct TryIter<'a, T>(&'a Receiver<T>);
impl<T> Iterator for TryIter<'_, T> {
    type Item = T;
    fn next(&mut self) -> Option<T> {
        self.0.try_recv().ok()
    }
}
pub struct IntoIter<T>(Receiver<T>);
impl<T> Iterator for IntoIter<T> {
    type Item = T;
    fn next(&mut self) -> Option<T> {
        self.0.recv().ok()
    }
}
impl<T> IntoIterator for Receiver<T> {
    type Item = T;
    type IntoIter = IntoIter<T>;
    fn into_iter(self) -> IntoIter<T> {
        IntoIter(self)
    }
}
impl<'a, T> IntoIterator for &'a Receiver<T> {
    type Item = T;
    type IntoIter = Iter<'a, T>;
    fn into_iter(self) -> Iter<'a, T> {
        Iter(self)
    }
}
#[derive(Debug, PartialEq, Eq, Clone, Copy)]
pub enum TrySendError<T> {
    Full(T),
    Disconnected(T),
}
impl<T> Sender<T> {
    pub fn try_send(&self, t: T) -> Result<(), TrySendError<T>> {
        let _rt = crate::RtGuard::new();
        yield_point("try_send");
        let full = locked(|_| self.0.cap.map(|cap| unsafe { (*self.0.q.get()).len() } >= cap).unwrap_or(false));
        if self.0.receivers.get() == 0 {
            return Err(TrySendError::Disconnected(t));
        }
        if full {
            return Err(TrySendError::Full(t));
        }
        self.send(t).map_err(|e| TrySendError::Disconnected(e.0))
    }
    pub fn is_full(&self) -> bool {
        let _rt = crate::RtGuard::new();
        locked(|_| self.0.cap.map(|cap| unsafe { (*self.0.q.get()).len() } >= cap).unwrap_or(false))
    }
    pub fn capacity(&self) -> Option<usize> {
        self.0.cap
    }
}

trait Sel {
    fn id(&self) -> u64;
    fn state(&self) -> (bool, bool);
}
impl<T> Sel for Receiver<T> {
    fn id(&self) -> u64 {
        self.0.id
    }
    fn state(&self) -> (bool, bool) {
        Receiver::state(self)
    }
}

pub struct Select<'a> {
    rs: Vec<Option<&'a dyn Sel>>,
    biased: bool,
}
impl<'a> Default for Select<'a> {
    fn default() -> Self {
        Self::new()
    }
}
impl<'a> Select<'a> {
    pub fn new() -> Self {
        Select { rs: vec![], biased: false }
    }
    /// Like crossbeam's `new_biased`: among several ready operations the one registered first is reported.
    pub fn new_biased() -> Self {
        Select { rs: vec![], biased: true }
    }
    pub fn recv<T>(&mut self, r: &'a Receiver<T>) -> usize {
        let _rt = crate::RtGuard::new();
        self.rs.push(Some(r));
        self.rs.len() - 1
    }
    /// Removes a previously registered operation (its index is never reported again).
    pub fn remove(&mut self, index: usize) {
        assert!(self.rs.get(index).map(|r| r.is_some()).unwrap_or(false), "index out of bounds; {index} is not a registered operation");
        self.rs[index] = None;
    }
    /// Blocks until one of the registered operations is ready (non-empty or disconnected) and
    /// returns its index; if several are ready, one of them is chosen by the scheduler stream.
    pub fn ready(&mut self) -> usize {
        let _rt = crate::RtGuard::new();
        yield_point("select.ready");
        loop {
            match enter() {
                Mode::Outside => panic!("detsim Select::ready outside a run"),
                Mode::Ending => return 0,
                Mode::Sim(mut c) => {
                    let ready: Vec<usize> = (0..self.rs.len())
                        .filter(|&i| match self.rs[i] {
                            Some(r) => {
                                let (ne, dc) = r.state();
                                ne || dc
                            }
                            None => false,
                        })
                        .collect();
                    if !ready.is_empty() {
                        let k = if ready.len() > 1 && !self.biased { c.decide(ready.len()) } else { 0 };
                        if ready.len() > 1 {
                            c.count("reach.select_several_ready");
                        }
                        c.log(0x61, ready[k] as u64, ready.len() as u64);
                        return ready[k];
                    }
                    let ids: Vec<u64> = self.rs.iter().flatten().map(|r| r.id()).collect();
                    assert!(!ids.is_empty(), "Select::ready with no operation would block forever");
                    c.block(Status::IdleBlocked, "select", ids, false);
                }
            }
        }
    }
}
