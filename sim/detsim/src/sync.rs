//! Simulated locks, parking_lot flavoured API (no poisoning). `stdsync` wraps the same raw cores.
use crate::{enter, yield_point, Mode, ObjId, RwPolicy, Status};
use std::cell::{Cell, UnsafeCell};

// ------------------------------------------------------------------ raw cores
pub(crate) struct RawMutex {
    id: ObjId,
    locked: Cell<bool>,
}
unsafe impl Send for RawMutex {}
unsafe impl Sync for RawMutex {}
impl RawMutex {
    pub(crate) const fn new() -> Self {
        RawMutex { id: ObjId::new(), locked: Cell::new(false) }
    }
    pub(crate) fn lock(&self) {
        let _rt = crate::RtGuard::new();
        yield_point("mutex.lock");
        self.lock_no_yield();
    }
    /// acquire without a leading scheduling point (used when re-acquiring after a condvar wait)
    pub(crate) fn lock_no_yield(&self) {
        let _rt = crate::RtGuard::new();
        loop {
            match enter() {
                Mode::Outside => {
                    assert!(!self.locked.replace(true), "detsim mutex contended outside a run");
                    return;
                }
                Mode::Ending => {
                    self.locked.set(true);
                    return;
                }
                Mode::Sim(mut c) => {
                    let id = self.id.get();
                    if !self.locked.get() {
                        self.locked.set(true);
                        c.log(0x10, id, 1);
                        return;
                    }
                    c.count("reach.mutex_contended");
                    c.block(Status::Blocked, "mutex", vec![id], false);
                }
            }
        }
    }
    pub(crate) fn unlock_no_yield(&self) {
        let _rt = crate::RtGuard::new();
        match enter() {
            Mode::Outside | Mode::Ending => self.locked.set(false),
            Mode::Sim(mut c) => {
                let id = self.id.get();
                self.locked.set(false);
                c.log(0x11, id, 0);
                c.wake(id);
            }
        }
    }
    pub(crate) fn unlock(&self) {
        let _rt = crate::RtGuard::new();
        self.unlock_no_yield();
        yield_point("mutex.unlock");
    }
}

pub(crate) struct RawCondvar {
    id: ObjId,
}
impl RawCondvar {
    pub(crate) const fn new() -> Self {
        RawCondvar { id: ObjId::new() }
    }
    /// Atomically release `m` and wait; re-acquires `m` before returning. May wake spuriously.
    pub(crate) fn wait(&self, m: &RawMutex) {
        let _rt = crate::RtGuard::new();
        match enter() {
            Mode::Outside => panic!("detsim condvar wait outside a run"),
            Mode::Ending => {}
            Mode::Sim(mut c) => {
                let id = self.id.get();
                // release + block is one atomic step: no wake-up can be lost in between
                m.locked.set(false);
                let mid = m.id.get();
                c.log(0x12, id, mid);
                c.wake(mid);
                c.block(Status::Blocked, "condvar", vec![id], true);
            }
        }
        m.lock_no_yield();
    }
    pub(crate) fn notify_all(&self) {
        let _rt = crate::RtGuard::new();
        match enter() {
            Mode::Outside | Mode::Ending => return,
            Mode::Sim(mut c) => {
                let id = self.id.get();
                c.log(0x13, id, 0);
                c.wake(id);
            }
        }
        yield_point("notify_all");
    }
    pub(crate) fn notify_one(&self) {
        let _rt = crate::RtGuard::new();
        match enter() {
            Mode::Outside | Mode::Ending => return,
            Mode::Sim(mut c) => {
                let id = self.id.get();
                c.log(0x14, id, 0);
                c.wake_one(id);
            }
        }
        yield_point("notify_one");
    }
}

pub(crate) struct RawRwLock {
    id: ObjId,
    readers: Cell<usize>,
    writer: Cell<bool>,
    wwait: Cell<usize>,
}
unsafe impl Send for RawRwLock {}
unsafe impl Sync for RawRwLock {}
impl RawRwLock {
    pub(crate) const fn new() -> Self {
        RawRwLock { id: ObjId::new(), readers: Cell::new(0), writer: Cell::new(false), wwait: Cell::new(0) }
    }
    pub(crate) fn read(&self) {
        let _rt = crate::RtGuard::new();
        yield_point("rw.read");
        loop {
            match enter() {
                Mode::Outside => {
                    assert!(!self.writer.get(), "detsim rwlock contended outside a run");
                    self.readers.set(self.readers.get() + 1);
                    return;
                }
                Mode::Ending => {
                    self.readers.set(self.readers.get() + 1);
                    return;
                }
                Mode::Sim(mut c) => {
                    let id = self.id.get();
                    let writers_first = c.rw_policy() == RwPolicy::WriterPref && self.wwait.get() > 0;
                    if !self.writer.get() && !writers_first {
                        self.readers.set(self.readers.get() + 1);
                        c.log(0x20, id, self.readers.get() as u64);
                        return;
                    }
                    if !self.writer.get() && writers_first {
                        c.count("reach.reader_behind_waiting_writer");
                    }
                    c.block(Status::Blocked, "rw.read", vec![id], false);
                }
            }
        }
    }
    pub(crate) fn write(&self) {
        let _rt = crate::RtGuard::new();
        yield_point("rw.write");
        let mut waiting = false;
        loop {
            match enter() {
                Mode::Outside => {
                    assert!(!self.writer.get() && self.readers.get() == 0, "detsim rwlock contended outside a run");
                    self.writer.set(true);
                    return;
                }
                Mode::Ending => {
                    if waiting {
                        self.wwait.set(self.wwait.get().saturating_sub(1));
                    }
                    self.writer.set(true);
                    return;
                }
                Mode::Sim(mut c) => {
                    let id = self.id.get();
                    if !self.writer.get() && self.readers.get() == 0 {
                        if waiting {
                            self.wwait.set(self.wwait.get() - 1);
                        }
                        self.writer.set(true);
                        c.log(0x21, id, 0);
                        return;
                    }
                    if !waiting {
                        waiting = true;
                        self.wwait.set(self.wwait.get() + 1);
                        if self.readers.get() > 0 {
                            c.count("reach.writer_waits_for_readers");
                        }
                    }
                    c.block(Status::Blocked, "rw.write", vec![id], false);
                }
            }
        }
    }
    pub(crate) fn unlock(&self, write: bool) {
        let _rt = crate::RtGuard::new();
        match enter() {
            Mode::Outside | Mode::Ending => {
                if write {
                    self.writer.set(false)
                } else {
                    self.readers.set(self.readers.get().saturating_sub(1))
                }
                return;
            }
            Mode::Sim(mut c) => {
                let id = self.id.get();
                if write {
                    self.writer.set(false)
                } else {
                    self.readers.set(self.readers.get() - 1)
                }
                c.log(0x22, id, write as u64);
                c.wake(id);
            }
        }
        yield_point(if write { "rw.unwrite" } else { "rw.unread" });
    }
}

// ------------------------------------------------------------------ parking_lot style API
pub struct Mutex<T: ?Sized> {
    raw: RawMutex,
    data: UnsafeCell<T>,
}
unsafe impl<T: ?Sized + Send> Send for Mutex<T> {}
unsafe impl<T: ?Sized + Send> Sync for Mutex<T> {}
pub struct MutexGuard<'a, T: ?Sized> {
    pub(crate) m: &'a Mutex<T>,
}
impl<T> Mutex<T> {
    pub const fn new(t: T) -> Self {
        Mutex { raw: RawMutex::new(), data: UnsafeCell::new(t) }
    }
    pub fn into_inner(self) -> T {
        self.data.into_inner()
    }
}
impl<T: Default> Default for Mutex<T> {
    fn default() -> Self {
        Self::new(T::default())
    }
}
impl<T: ?Sized> Mutex<T> {
    pub fn lock(&self) -> MutexGuard<'_, T> {
        let _rt = crate::RtGuard::new();
        self.raw.lock();
        MutexGuard { m: self }
    }
    pub fn get_mut(&mut self) -> &mut T {
        self.data.get_mut()
    }
}
impl<T: ?Sized> Drop for MutexGuard<'_, T> {
    fn drop(&mut self) {
        let _rt = crate::RtGuard::new();
        self.m.raw.unlock();
    }
}
impl<T: ?Sized> std::ops::Deref for MutexGuard<'_, T> {
    type Target = T;
    fn deref(&self) -> &T {
        unsafe { &*self.m.data.get() }
    }
}
impl<T: ?Sized> std::ops::DerefMut for MutexGuard<'_, T> {
    fn deref_mut(&mut self) -> &mut T {
        unsafe { &mut *self.m.data.get() }
    }
}

pub struct Condvar {
    raw: RawCondvar,
}
impl Default for Condvar {
    fn default() -> Self {
        Self::new()
    }
}
impl Condvar {
    pub const fn new() -> Self {
        Condvar { raw: RawCondvar::new() }
    }
    pub fn wait<T: ?Sized>(&self, guard: &mut MutexGuard<'_, T>) {
        let _rt = crate::RtGuard::new();
        self.raw.wait(&guard.m.raw);
    }
    pub fn notify_all(&self) -> usize {
        let _rt = crate::RtGuard::new();
        self.raw.notify_all();
        0
    }
    pub fn notify_one(&self) -> bool {
        let _rt = crate::RtGuard::new();
        self.raw.notify_one();
        true
    }
}

pub struct RwLock<T: ?Sized> {
    raw: RawRwLock,
    data: UnsafeCell<T>,
}
unsafe impl<T: ?Sized + Send> Send for RwLock<T> {}
unsafe impl<T: ?Sized + Send + Sync> Sync for RwLock<T> {}
pub struct RwLockReadGuard<'a, T: ?Sized> {
    l: &'a RwLock<T>,
}
pub struct RwLockWriteGuard<'a, T: ?Sized> {
    l: &'a RwLock<T>,
}
impl<T> RwLock<T> {
    pub const fn new(t: T) -> Self {
        RwLock { raw: RawRwLock::new(), data: UnsafeCell::new(t) }
    }
    pub fn into_inner(self) -> T {
        self.data.into_inner()
    }
}
impl<T: Default> Default for RwLock<T> {
    fn default() -> Self {
        Self::new(T::default())
    }
}
impl<T: ?Sized> RwLock<T> {
    pub fn get_mut(&mut self) -> &mut T {
        self.data.get_mut()
    }
    pub fn read(&self) -> RwLockReadGuard<'_, T> {
        let _rt = crate::RtGuard::new();
        self.raw.read();
        RwLockReadGuard { l: self }
    }
    pub fn write(&self) -> RwLockWriteGuard<'_, T> {
        let _rt = crate::RtGuard::new();
        self.raw.write();
        RwLockWriteGuard { l: self }
    }
}
impl<T: ?Sized> Drop for RwLockReadGuard<'_, T> {
    fn drop(&mut self) {
        let _rt = crate::RtGuard::new();
        self.l.raw.unlock(false);
    }
}
impl<T: ?Sized> Drop for RwLockWriteGuard<'_, T> {
    fn drop(&mut self) {
        let _rt = crate::RtGuard::new();
        self.l.raw.unlock(true);
    }
}
impl<T: ?Sized> std::ops::Deref for RwLockReadGuard<'_, T> {
    type Target = T;
    fn deref(&self) -> &T {
        unsafe { &*self.l.data.get() }
    }
}
impl<T: ?Sized> std::ops::Deref for RwLockWriteGuard<'_, T> {
    type Target = T;
    fn deref(&self) -> &T {
        unsafe { &*self.l.data.get() }
    }
}
impl<T: ?Sized> std::ops::DerefMut for RwLockWriteGuard<'_, T> {
    fn deref_mut(&mut self) -> &mut T {
        unsafe { &mut *self.l.data.get() }
    }
}
