//! Deterministic replacement for `std::collections::hash_map::RandomState`:
//! real SipHash (std `DefaultHasher` construction is fixed-key, so we mix per-instance keys into the stream),
//! per-instance keys drawn from the run's `hash` PRNG stream.
use std::hash::{BuildHasher, Hasher};

#[derive(Clone, Debug)]
pub struct RandomState {
    k0: u64,
    k1: u64,
}
impl RandomState {
    pub fn new() -> Self {
        RandomState { k0: crate::rng_hash(), k1: crate::rng_hash() }
    }
}
impl Default for RandomState {
    fn default() -> Self {
        Self::new()
    }
}
pub struct KeyedHasher(std::collections::hash_map::DefaultHasher);
impl Hasher for KeyedHasher {
    fn finish(&self) -> u64 {
        self.0.finish()
    }
    fn write(&mut self, bytes: &[u8]) {
        self.0.write(bytes)
    }
}
impl BuildHasher for RandomState {
    type Hasher = KeyedHasher;
    fn build_hasher(&self) -> KeyedHasher {
        let mut h = std::collections::hash_map::DefaultHasher::new();
        h.write_u64(self.k0);
        h.write_u64(self.k1);
        KeyedHasher(h)
    }
}
