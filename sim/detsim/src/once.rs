//! Simulated `once_cell::sync::OnceCell` (the subset the library uses).
//! Concurrent initialisers block in the simulator; an initialiser that fails (Err or panic)
//! resets the cell and lets one of the waiters try.
use crate::{enter, yield_point, Mode, ObjId, Status};
use std::cell::{Cell, UnsafeCell};

#[derive(Clone, Copy, PartialEq, Eq)]
enum St {
    Empty,
    Running,
    Done,
}
pub struct OnceCell<T> {
    id: ObjId,
    st: Cell<St>,
    val: UnsafeCell<Option<T>>,
}
unsafe impl<T: Send + Sync> Sync for OnceCell<T> {}
unsafe impl<T: Send> Send for OnceCell<T> {}
impl<T> std::panic::RefUnwindSafe for OnceCell<T> {}
impl<T> std::panic::UnwindSafe for OnceCell<T> {}

struct Reset<'a, T>(&'a OnceCell<T>);
impl<T> Drop for Reset<'_, T> {
    fn drop(&mut self) {
        let _rt = crate::RtGuard::new();
        // initialiser failed or panicked
        match enter() {
            Mode::Outside | Mode::Ending => self.0.st.set(St::Empty),
            Mode::Sim(mut c) => {
                let id = self.0.id.get();
                self.0.st.set(St::Empty);
                c.log(0x71, id, 0);
                c.wake(id);
            }
        }
    }
}

impl<T> OnceCell<T> {
    pub const fn new() -> Self {
        OnceCell { id: ObjId::new(), st: Cell::new(St::Empty), val: UnsafeCell::new(None) }
    }
    pub const fn with_value(v: T) -> Self {
        OnceCell { id: ObjId::new(), st: Cell::new(St::Done), val: UnsafeCell::new(Some(v)) }
    }
    fn is_done(&self) -> bool {
        match enter() {
            Mode::Outside | Mode::Ending => self.st.get() == St::Done,
            Mode::Sim(_c) => self.st.get() == St::Done,
        }
    }
    /// Never blocks.
    pub fn get(&self) -> Option<&T> {
        let _rt = crate::RtGuard::new();
        yield_point("once.get");
        if self.is_done() {
            unsafe { (*self.val.get()).as_ref() }
        } else {
            None
        }
    }
    pub fn get_mut(&mut self) -> Option<&mut T> {
        if self.st.get() == St::Done {
            self.val.get_mut().as_mut()
        } else {
            None
        }
    }
    pub fn into_inner(self) -> Option<T> {
        self.val.into_inner()
    }
    pub fn get_or_init<F: FnOnce() -> T>(&self, f: F) -> &T {
        match self.get_or_try_init(|| Ok::<T, std::convert::Infallible>(f())) {
            Ok(v) => v,
            Err(e) => match e {},
        }
    }
    pub fn get_or_try_init<F, E>(&self, f: F) -> Result<&T, E>
    where
        F: FnOnce() -> Result<T, E>,
    {
        yield_point("once.init");
        loop {
            match enter() {
                Mode::Outside | Mode::Ending => match self.st.get() {
                    St::Done => return Ok(unsafe { (*self.val.get()).as_ref().unwrap() }),
                    _ => {
                        self.st.set(St::Running);
                        break;
                    }
                },
                Mode::Sim(mut c) => {
                    let id = self.id.get();
                    match self.st.get() {
                        St::Done => return Ok(unsafe { (*self.val.get()).as_ref().unwrap() }),
                        St::Empty => {
                            self.st.set(St::Running);
                            c.log(0x70, id, 0);
                            break;
                        }
                        St::Running => {
                            c.count("reach.once_waited_for_initialiser");
                            c.block(Status::Blocked, "once", vec![id], false);
                        }
                    }
                }
            }
        }
        // we are the initialiser
        let reset = Reset(self);
        yield_point("once.run");
        let v = f()?;
        std::mem::forget(reset);
        match enter() {
            Mode::Outside | Mode::Ending => {
                unsafe { *self.val.get() = Some(v) };
                self.st.set(St::Done);
            }
            Mode::Sim(mut c) => {
                let id = self.id.get();
                unsafe { *self.val.get() = Some(v) };
                self.st.set(St::Done);
                c.log(0x72, id, 0);
                c.wake(id);
            }
        }
        yield_point("once.done");
        Ok(unsafe { (*self.val.get()).as_ref().unwrap() })
    }
}
impl<T> Default for OnceCell<T> {
    fn default() -> Self {
        Self::new()
    }
}
