//! detsim: a seeded cooperative scheduler over real OS threads.
//!
//! Exactly one simulated thread holds the *baton*; every other simulated thread
//! is parked on its own OS condvar.  A thread gives the baton away only inside
//! this crate (a *scheduling point*).  Which runnable thread gets it next is
//! decided by a PRNG seeded from the run seed, or by a recorded *tape*.
//!
//! See /verif/DESIGN.md §3.
#![allow(clippy::type_complexity)]

use std::cell::Cell;
use std::collections::BTreeMap;
use std::panic::{self, AssertUnwindSafe};
use std::sync::{Arc, Condvar as OsCondvar, Mutex as OsMutex, MutexGuard as OsGuard};

pub mod chan;
pub mod hash;
pub mod notify_stub;
pub mod once;
pub mod stdsync;
pub mod sync;

// ---------------------------------------------------------------- PRNG
#[derive(Clone, Debug)]
pub struct SplitMix(pub u64);
impl SplitMix {
    pub fn new(seed: u64) -> Self {
        SplitMix(seed)
    }
    pub fn next(&mut self) -> u64 {
        self.0 = self.0.wrapping_add(0x9E3779B97F4A7C15);
        let mut z = self.0;
        z = (z ^ (z >> 30)).wrapping_mul(0xBF58476D1CE4E5B9);
        z = (z ^ (z >> 27)).wrapping_mul(0x94D049BB133111EB);
        z ^ (z >> 31)
    }
    /// Uniform in 0..n (n == 0 gives 0).
    pub fn below(&mut self, n: u64) -> u64 {
        if n <= 1 {
            0
        } else {
            self.next() % n
        }
    }
    pub fn range(&mut self, lo: u64, hi_incl: u64) -> u64 {
        lo + self.below(hi_incl - lo + 1)
    }
    pub fn chance(&mut self, num: u64, den: u64) -> bool {
        self.below(den) < num
    }
    pub fn pick<'a, T>(&mut self, xs: &'a [T]) -> &'a T {
        &xs[self.below(xs.len() as u64) as usize]
    }
    pub fn fork(&mut self, tag: u64) -> SplitMix {
        SplitMix(mix(self.next(), tag))
    }
}
pub fn mix(a: u64, b: u64) -> u64 {
    let mut s = SplitMix(a ^ b.rotate_left(32) ^ 0xD1B54A32D192ED03);
    s.next()
}

// ---------------------------------------------------------------- public types
#[derive(Clone, Copy, Debug, PartialEq, Eq)]
pub enum Status {
    Runnable,
    /// blocked on a simulator object (lock, condvar, channel, join, once)
    Blocked,
    /// blocked in `Select::ready` with every channel connected and empty: legitimately idle
    IdleBlocked,
    /// waiting for global quiescence
    Quiesce,
    /// parked after reporting a failure
    Failed,
    Finished,
    Panicked,
}

#[derive(Clone, Copy, Debug, PartialEq, Eq)]
pub enum Policy {
    Random,
    /// keep the current thread with probability p%
    Sticky(u8),
    /// PCT-style: random priorities, `d` priority change points within `len` steps
    Pct(u8, u32),
    RoundRobin,
}

#[derive(Clone, Copy, Debug, PartialEq, Eq)]
pub enum RwPolicy {
    /// a waiting writer blocks new readers (std futex rwlock, parking_lot)
    WriterPref,
    /// readers enter whenever no writer holds the lock
    ReaderPref,
}

#[derive(Clone, Debug, PartialEq, Eq)]
pub enum Failure {
    /// no runnable thread, but some thread is neither finished nor legitimately idle
    Deadlock(String),
    /// the run exceeded its step budget (livelock or unbounded work)
    StepBudget(String),
    /// quiescence was requested but other threads kept taking scheduling points
    Spin(String),
    /// an oracle of the harness failed: (rule id, message)
    Assertion(String, String),
    /// a simulated thread panicked with an unexpected payload
    Panic(String, String),
}
impl Failure {
    pub fn rule(&self) -> String {
        match self {
            Failure::Deadlock(_) => "deadlock".into(),
            Failure::StepBudget(_) => "step-budget".into(),
            Failure::Spin(_) => "spin".into(),
            Failure::Assertion(r, _) => r.clone(),
            Failure::Panic(t, _) => format!("panic@{t}"),
        }
    }
    pub fn message(&self) -> String {
        match self {
            Failure::Deadlock(m) | Failure::StepBudget(m) | Failure::Spin(m) => m.clone(),
            Failure::Assertion(_, m) | Failure::Panic(_, m) => m.clone(),
        }
    }
}

#[derive(Clone, Debug)]
pub struct RunConfig {
    pub seed: u64,
    pub policy: Policy,
    pub rw_policy: RwPolicy,
    pub tape: Option<Vec<u32>>,
    pub max_steps: u64,
    pub spin_limit: u64,
    pub shards: Option<usize>,
    /// probability (per cent) that a thread blocked on a condvar is woken spuriously at a scheduling decision
    pub spurious_pct: u8,
    pub trace: bool,
    /// an unexpected (non-injected) panic of any simulated thread is a Failure::Panic
    pub panic_is_failure: bool,
    /// which classes of `atomic_point` hooks are scheduling points in this run (AT_* bits)
    pub atomic_mask: u32,
}
pub const AT_RELOAD: u32 = 1;
pub const AT_BYTES: u32 = 2;
pub const AT_TOKEN: u32 = 4;
impl RunConfig {
    pub fn new(seed: u64) -> Self {
        RunConfig {
            seed,
            policy: Policy::Random,
            rw_policy: RwPolicy::WriterPref,
            tape: None,
            max_steps: 200_000,
            spin_limit: 2_000,
            shards: None,
            spurious_pct: 0,
            trace: false,
            panic_is_failure: true,
            atomic_mask: AT_RELOAD | AT_TOKEN,
        }
    }
}

#[derive(Clone, Debug)]
pub struct ThreadInfo {
    pub id: usize,
    pub name: String,
    pub status: Status,
    pub why: &'static str,
    pub blocked_on: Vec<u64>,
    pub steps: u64,
}

#[derive(Clone, Debug)]
pub struct ProbeEvent {
    pub seq: u64,
    pub thread: usize,
    pub label: &'static str,
    pub val: u64,
}

#[derive(Debug)]
pub struct RunResult {
    pub failure: Option<Failure>,
    pub tape: Vec<u32>,
    pub steps: u64,
    pub switches: u64,
    pub digest: u64,
    pub threads: Vec<ThreadInfo>,
    pub probes: Vec<ProbeEvent>,
    pub counters: BTreeMap<&'static str, u64>,
    pub trace: Vec<String>,
    pub leaked_threads: usize,
    pub max_threads: usize,
}

// ---------------------------------------------------------------- state
struct Th {
    status: Status,
    cv: Arc<OsCondvar>,
    name: String,
    steps: u64,
    blocked_on: Vec<u64>,
    why: &'static str,
    prio: u64,
    started: bool,
    /// blocked on a condvar (eligible for spurious wake-ups)
    on_condvar: bool,
    /// how many times this thread had to block
    blocks: u64,
    leaked: bool,
}

#[derive(PartialEq, Eq, Clone, Copy, Debug)]
enum Phase {
    Running,
    /// the run is over (main returned, or a failure was recorded); the coordinator unwinds what is left
    Ending,
}

const NOBODY: usize = usize::MAX;

struct State {
    epoch: u64,
    threads: Vec<Th>,
    current: usize,
    phase: Phase,
    /// the thread the coordinator is unwinding right now
    unwinding: usize,
    sched: SplitMix,
    hash: SplitMix,
    aux: SplitMix,
    policy: Policy,
    rw_policy: RwPolicy,
    tape_in: Option<Vec<u32>>,
    tape_pos: usize,
    tape_out: Vec<u32>,
    steps: u64,
    switches: u64,
    max_steps: u64,
    spin_limit: u64,
    quiesce_spin: u64,
    digest: u64,
    seq: u64,
    failure: Option<Failure>,
    shards: Option<usize>,
    spurious_pct: u8,
    trace_on: bool,
    trace: Vec<String>,
    probes: Vec<ProbeEvent>,
    counters: BTreeMap<&'static str, u64>,
    os_threads: Vec<std::thread::JoinHandle<()>>,
    pct_changes: Vec<u64>,
    panic_is_failure: bool,
    notify: notify_stub::Registry,
}
static ATOMIC_MASK: std::sync::atomic::AtomicU32 = std::sync::atomic::AtomicU32::new(0);
/// Scheduling point in front of an atomic operation of the library (hook H5); active only for the classes enabled in this run.
#[inline]
pub fn atomic_point(class: u32, label: &'static str) {
    if ATOMIC_MASK.load(std::sync::atomic::Ordering::Relaxed) & class != 0 {
        yield_point(label);
    }
}

static RT: OsMutex<Option<State>> = OsMutex::new(None);
static COORD: OsCondvar = OsCondvar::new();
thread_local! { static CUR: Cell<Option<(usize, u64)>> = const { Cell::new(None) }; }
thread_local! { static RT_DEPTH: Cell<u32> = const { Cell::new(0) }; }
/// Marks "this thread is executing simulator code": lets an accounting allocator ignore the runtime's own allocations.
pub struct RtGuard;
impl RtGuard {
    #[inline]
    pub fn new() -> RtGuard {
        RT_DEPTH.with(|d| d.set(d.get() + 1));
        RtGuard
    }
}
impl Default for RtGuard {
    fn default() -> Self {
        Self::new()
    }
}
impl Drop for RtGuard {
    #[inline]
    fn drop(&mut self) {
        RT_DEPTH.with(|d| d.set(d.get() - 1));
    }
}
#[inline]
pub fn in_runtime() -> bool {
    RT_DEPTH.try_with(|d| d.get() > 0).unwrap_or(true)
}

/// Payload used to unwind simulated threads at the end of a run.
pub struct SimAbort;
/// Payload for panics injected on purpose by the harness (silenced by the panic hook).
pub struct InjectedPanic(pub String);

fn lock() -> OsGuard<'static, Option<State>> {
    RT.lock().unwrap_or_else(|e| e.into_inner())
}
fn me() -> Option<usize> {
    CUR.with(|c| c.get()).map(|x| x.0)
}
pub fn in_sim() -> bool {
    me().is_some()
}
pub fn current_thread() -> usize {
    me().expect("not a simulated thread")
}

/// Install a panic hook that stays silent for `SimAbort` and `InjectedPanic`.
pub fn install_quiet_panic_hook() {
    let prev = panic::take_hook();
    panic::set_hook(Box::new(move |i| {
        if i.payload().is::<SimAbort>() || i.payload().is::<InjectedPanic>() {
            return;
        }
        if std::env::var_os("DETSIM_SHOW_PANICS").is_some() || !in_sim() {
            prev(i);
        }
    }));
}

/// Re-raise the runtime's private payload if `r` carries it (to be used after every `catch_unwind` in a harness).
pub fn reraise_abort<T>(r: std::thread::Result<T>) -> std::thread::Result<T> {
    match r {
        Err(e) if e.is::<SimAbort>() => panic::resume_unwind(e),
        other => other,
    }
}

impl State {
    fn log(&mut self, kind: u64, a: u64, b: u64) {
        self.seq += 1;
        let mut h = self.digest ^ kind.wrapping_mul(0x100000001b3);
        h = h.rotate_left(13) ^ a.wrapping_mul(0x9E3779B97F4A7C15);
        h = h.rotate_left(17) ^ b.wrapping_mul(0xC2B2AE3D27D4EB4F);
        self.digest = h.wrapping_mul(0x100000001b3);
    }
    fn tr(&mut self, f: impl FnOnce() -> String) {
        if self.trace_on {
            let s = f();
            self.trace.push(format!("{:>6} {}", self.seq, s));
        }
    }
    fn runnable(&self) -> Vec<usize> {
        (0..self.threads.len()).filter(|&i| self.threads[i].status == Status::Runnable).collect()
    }
    fn describe(&self) -> String {
        self.threads
            .iter()
            .enumerate()
            .map(|(i, t)| format!("t{i}:{}:{:?}@{}{:?}", t.name, t.status, t.why, t.blocked_on))
            .collect::<Vec<_>>()
            .join(" | ")
    }
    /// One recorded scheduling decision among `n` alternatives; `default` is used once a replay tape is exhausted.
    fn decide(&mut self, n: usize, default: usize, draw: impl FnOnce(&mut SplitMix) -> usize) -> usize {
        let idx = if let Some(t) = &self.tape_in {
            if self.tape_pos < t.len() {
                let v = t[self.tape_pos] as usize % n;
                self.tape_pos += 1;
                v
            } else {
                default.min(n - 1)
            }
        } else {
            draw(&mut self.sched)
        };
        self.tape_out.push(idx as u32);
        idx
    }
    /// Decide who runs next. `me` is the thread giving up the baton. None = nobody can run.
    fn pick(&mut self, me: usize) -> Option<usize> {
        // spurious wake-ups of condvar waiters
        if self.spurious_pct > 0 {
            let cands: Vec<usize> = (0..self.threads.len())
                .filter(|&i| self.threads[i].status == Status::Blocked && self.threads[i].on_condvar)
                .collect();
            for c in cands {
                let pct = self.spurious_pct as u64;
                let hit = self.decide(2, 0, |s| (s.below(100) < pct) as usize);
                if hit == 1 {
                    self.threads[c].status = Status::Runnable;
                    self.threads[c].blocked_on.clear();
                    self.threads[c].on_condvar = false;
                    *self.counters.entry("fault.spurious_wakeup").or_insert(0) += 1;
                    self.log(0x57, c as u64, 0);
                }
            }
        }
        let mut r = self.runnable();
        if r.is_empty() {
            // threads waiting for quiescence are released one at a time when nobody else can run
            if let Some(q) = (0..self.threads.len()).find(|&i| self.threads[i].status == Status::Quiesce) {
                self.threads[q].status = Status::Runnable;
                self.quiesce_spin = 0;
                r.push(q);
            } else {
                return None;
            }
        } else if self.threads.iter().any(|t| t.status == Status::Quiesce) {
            self.quiesce_spin += 1;
            if self.quiesce_spin > self.spin_limit && self.failure.is_none() {
                self.failure = Some(Failure::Spin(self.describe()));
                return None;
            }
        }
        self.steps += 1;
        if self.steps > self.max_steps && self.failure.is_none() {
            self.failure = Some(Failure::StepBudget(self.describe()));
            return None;
        }
        let policy = if self.steps > self.max_steps / 2 { Policy::RoundRobin } else { self.policy };
        let pos_me = r.iter().position(|&x| x == me);
        let n = r.len();
        let steps = self.steps;
        let idx = match policy {
            Policy::Random => self.decide(n, pos_me.unwrap_or(0), |s| s.below(n as u64) as usize),
            Policy::Sticky(p) => self.decide(n, pos_me.unwrap_or(0), |s| match pos_me {
                Some(k) if s.below(100) < p as u64 => k,
                _ => s.below(n as u64) as usize,
            }),
            Policy::Pct(..) => {
                if self.pct_changes.contains(&steps) {
                    let low = self.threads.iter().map(|t| t.prio).min().unwrap_or(1);
                    if me < self.threads.len() {
                        self.threads[me].prio = low.saturating_sub(1);
                    }
                }
                let best = (0..n).max_by_key(|&k| self.threads[r[k]].prio).unwrap();
                self.decide(n, pos_me.unwrap_or(0), |_| best)
            }
            Policy::RoundRobin => {
                let k = r.iter().position(|&x| x > me).unwrap_or(0);
                self.decide(n, k, |_| k)
            }
        };
        let nxt = r[idx];
        self.log(0x51, nxt as u64, n as u64);
        Some(nxt)
    }
    fn end(&mut self) {
        self.phase = Phase::Ending;
        self.current = NOBODY;
        COORD.notify_all();
    }
}

/// Park the calling OS thread until it holds the baton again. Unwinds it if the coordinator says so.
fn park(mut g: OsGuard<'static, Option<State>>, me: usize) {
    let cv = g.as_ref().unwrap().threads[me].cv.clone();
    loop {
        {
            let st = g.as_mut().unwrap();
            if st.phase == Phase::Ending {
                if st.unwinding == me {
                    if std::thread::panicking() {
                        // parked inside a destructor of an unwinding thread: cannot be unwound again
                        st.threads[me].leaked = true;
                        st.threads[me].status = Status::Panicked;
                        COORD.notify_all();
                        st.unwinding = NOBODY;
                    } else {
                        drop(g);
                        panic::resume_unwind(Box::new(SimAbort));
                    }
                }
            } else if st.current == me && st.threads[me].status == Status::Runnable {
                return;
            }
        }
        g = cv.wait(g).unwrap_or_else(|e| e.into_inner());
    }
}

/// Give up the baton with a new status; returns when this thread is scheduled again.
fn switch(mut g: OsGuard<'static, Option<State>>, me: usize, status: Status, why: &'static str, on: Vec<u64>) {
    let st = g.as_mut().unwrap();
    if st.phase == Phase::Ending {
        // teardown: nothing blocks, nothing switches. A thread that swallowed the abort payload
        // (a catch_unwind in the code under test) is unwound again at its next call into the runtime.
        if st.unwinding == me && !std::thread::panicking() {
            drop(g);
            panic::resume_unwind(Box::new(SimAbort));
        }
        return;
    }
    {
        let t = &mut st.threads[me];
        t.status = status;
        t.why = why;
        t.blocked_on = on;
        t.steps += 1;
        if matches!(status, Status::Blocked | Status::IdleBlocked) {
            t.blocks += 1;
        }
    }
    st.tr(|| format!("t{me} -> {status:?} {why}"));
    let terminal = matches!(status, Status::Finished | Status::Panicked);
    if me == 0 && terminal {
        st.end();
        return;
    }
    if status == Status::Failed {
        st.end();
        park(g, me);
        unreachable!("a failed thread is only ever unwound");
    }
    let next = if st.failure.is_some() { None } else { st.pick(me) };
    match next {
        Some(n) if n == me => return,
        Some(n) => {
            st.current = n;
            st.switches += 1;
            st.threads[n].cv.notify_one();
        }
        None => {
            if st.failure.is_none() {
                let all_ok = st.threads.iter().all(|t| matches!(t.status, Status::Finished | Status::Panicked | Status::IdleBlocked));
                if !all_ok {
                    st.failure = Some(Failure::Deadlock(st.describe()));
                }
            }
            st.end();
        }
    }
    if terminal {
        return;
    }
    park(g, me);
}

fn wake(st: &mut State, obj: u64) {
    for t in st.threads.iter_mut() {
        if matches!(t.status, Status::Blocked | Status::IdleBlocked) && t.blocked_on.contains(&obj) {
            t.status = Status::Runnable;
            t.blocked_on.clear();
            t.on_condvar = false;
        }
    }
}

/// Wake at most one thread blocked on `obj` (chosen by the scheduler stream).
fn wake_one(st: &mut State, obj: u64) {
    let c: Vec<usize> = (0..st.threads.len())
        .filter(|&i| matches!(st.threads[i].status, Status::Blocked | Status::IdleBlocked) && st.threads[i].blocked_on.contains(&obj))
        .collect();
    if c.is_empty() {
        return;
    }
    let n = c.len();
    let k = st.decide(n, 0, |s| s.below(n as u64) as usize);
    let t = &mut st.threads[c[k]];
    t.status = Status::Runnable;
    t.blocked_on.clear();
    t.on_condvar = false;
}

static NEXT_OBJ: std::sync::atomic::AtomicU64 = std::sync::atomic::AtomicU64::new(0);
static RUN_ACTIVE: std::sync::atomic::AtomicBool = std::sync::atomic::AtomicBool::new(false);
/// Allocate a simulator object id (0 outside a run). Lock-free, so it may be called with the runtime lock held;
/// deterministic because only the baton holder runs.
pub fn new_obj() -> u64 {
    use std::sync::atomic::Ordering::Relaxed;
    if RUN_ACTIVE.load(Relaxed) {
        NEXT_OBJ.fetch_add(1, Relaxed) + 1
    } else {
        0
    }
}
fn epoch() -> u64 {
    CUR.with(|c| c.get()).map(|x| x.1).unwrap_or(0)
}

/// Lazily allocated per-run object id.
pub(crate) struct ObjId(std::sync::atomic::AtomicU64, std::sync::atomic::AtomicU64);
impl ObjId {
    pub(crate) const fn new() -> Self {
        ObjId(std::sync::atomic::AtomicU64::new(0), std::sync::atomic::AtomicU64::new(0))
    }
    pub(crate) fn get(&self) -> u64 {
        use std::sync::atomic::Ordering::Relaxed;
        let e = epoch();
        let v = self.0.load(Relaxed);
        if v != 0 && self.1.load(Relaxed) == e {
            return v;
        }
        let n = new_obj();
        if n != 0 {
            self.0.store(n, Relaxed);
            self.1.store(e, Relaxed);
        }
        n
    }
}

// ---------------------------------------------------------------- scheduling points and observation
/// A scheduling point: any runnable thread may run next.
pub fn yield_point(label: &'static str) {
    let _rt = RtGuard::new();
    let Some(me) = me() else { return };
    if std::thread::panicking() {
        return;
    }
    let mut g = lock();
    {
        let Some(st) = g.as_mut() else { return };
        st.log(0x59, me as u64, label.len() as u64);
    }
    switch(g, me, Status::Runnable, label, vec![]);
}

/// Record an observation in the event log (visible in `RunResult::probes`).
pub fn probe(label: &'static str, val: u64) {
    let _rt = RtGuard::new();
    if let Some(me) = me() {
        let mut g = lock();
        if let Some(st) = g.as_mut() {
            // the value may be an address: it is recorded but kept out of the event-log digest
            st.log(0x50, label.len() as u64, 0);
            let seq = st.seq;
            st.probes.push(ProbeEvent { seq, thread: me, label, val });
            st.tr(|| format!("t{me} probe {label} {val}"));
        }
    }
}
/// The probes recorded so far under `label` (e.g. the library's pass_begin / pass_end hooks).
pub fn probes_labelled(label: &str) -> Vec<ProbeEvent> {
    let g = lock();
    g.as_ref().map(|st| st.probes.iter().filter(|p| p.label == label).cloned().collect()).unwrap_or_default()
}
/// Bump a reach/fault counter.
pub fn count(label: &'static str) {
    count_n(label, 1)
}
pub fn count_n(label: &'static str, n: u64) {
    let _rt = RtGuard::new();
    if me().is_some() {
        let mut g = lock();
        if let Some(st) = g.as_mut() {
            *st.counters.entry(label).or_insert(0) += n;
        }
    }
}
/// Global event sequence number (a logical clock: strictly increases with every logged event).
pub fn seq() -> u64 {
    let _rt = RtGuard::new();
    let mut g = lock();
    match g.as_mut() {
        Some(st) => {
            st.log(0x52, 0, 0);
            st.seq
        }
        None => 0,
    }
}
/// How many times the calling thread has blocked so far.
pub fn my_block_count() -> u64 {
    let Some(me) = me() else { return 0 };
    lock().as_ref().map(|s| s.threads[me].blocks).unwrap_or(0)
}
pub fn steps_now() -> u64 {
    lock().as_ref().map(|s| s.steps).unwrap_or(0)
}
pub fn note(f: impl FnOnce() -> String) {
    let _rt = RtGuard::new();
    if let Some(me) = me() {
        let mut g = lock();
        if let Some(st) = g.as_mut() {
            st.tr(|| format!("t{me} {}", f()));
        }
    }
}
pub fn knob_shards() -> Option<usize> {
    if !in_sim() {
        return None;
    }
    lock().as_ref().and_then(|s| s.shards)
}
pub fn rw_policy() -> RwPolicy {
    lock().as_ref().map(|s| s.rw_policy).unwrap_or(RwPolicy::WriterPref)
}
/// Next value of the per-run hash-seed stream (deterministic constant outside a run).
pub fn rng_hash() -> u64 {
    if !in_sim() {
        return 0x1234_5678_9abc_def0;
    }
    match lock().as_mut() {
        Some(s) => s.hash.next(),
        None => 0x1234_5678_9abc_def0,
    }
}
/// Auxiliary in-run stream (use sparingly: workloads should be generated before the run).
pub fn rng_aux(n: u64) -> u64 {
    match lock().as_mut() {
        Some(s) => s.aux.below(n),
        None => 0,
    }
}
/// A recorded decision of the scheduler stream (goes on the tape).
pub fn decide(n: usize) -> usize {
    let _rt = RtGuard::new();
    if n <= 1 || !in_sim() {
        return 0;
    }
    let mut g = lock();
    match g.as_mut() {
        Some(st) if st.phase == Phase::Running => {
            let k = st.decide(n, 0, |s| s.below(n as u64) as usize);
            st.log(0x53, k as u64, n as u64);
            k
        }
        _ => 0,
    }
}

/// Report a violation and end the run. Never returns.
pub fn fail(rule: &str, msg: String) -> ! {
    let _rt = RtGuard::new();
    let me = current_thread();
    assert!(!std::thread::panicking(), "detsim::fail called while unwinding; use report()");
    let mut g = lock();
    {
        let st = g.as_mut().unwrap();
        if st.phase == Phase::Ending {
            drop(g);
            panic::resume_unwind(Box::new(SimAbort));
        }
        if st.failure.is_none() {
            st.failure = Some(Failure::Assertion(rule.to_string(), msg));
        }
    }
    switch(g, me, Status::Failed, "fail", vec![]);
    unreachable!()
}
/// Record a violation without unwinding (usable from `Drop`); the run ends at the next scheduling point.
pub fn report(rule: &str, msg: String) {
    let _rt = RtGuard::new();
    let mut g = lock();
    if let Some(st) = g.as_mut() {
        if st.failure.is_none() {
            st.failure = Some(Failure::Assertion(rule.to_string(), msg));
        }
    }
}
pub fn check(cond: bool, rule: &str, msg: impl FnOnce() -> String) {
    if !cond {
        fail(rule, msg())
    }
}
pub fn has_failed() -> bool {
    lock().as_ref().map(|s| s.failure.is_some()).unwrap_or(false)
}

fn infos(st: &State) -> Vec<ThreadInfo> {
    st.threads
        .iter()
        .enumerate()
        .map(|(id, t)| ThreadInfo { id, name: t.name.clone(), status: t.status, why: t.why, blocked_on: t.blocked_on.clone(), steps: t.steps })
        .collect()
}

/// Block until no other thread can run (all blocked / idle / finished). Returns the state of every thread.
pub fn quiesce() -> Vec<ThreadInfo> {
    let _rt = RtGuard::new();
    let me = current_thread();
    {
        let mut g = lock();
        let st = g.as_mut().unwrap();
        st.log(0x58, me as u64, 0);
        st.quiesce_spin = 0;
        switch(g, me, Status::Quiesce, "quiesce", vec![]);
    }
    let g = lock();
    infos(g.as_ref().unwrap())
}
pub fn thread_infos() -> Vec<ThreadInfo> {
    let g = lock();
    g.as_ref().map(infos).unwrap_or_default()
}

// ---------------------------------------------------------------- threads
pub mod thread {
    use super::*;
    use std::marker::PhantomData;

    pub struct JoinHandle<T> {
        id: usize,
        done: u64,
        slot: Arc<OsMutex<Option<std::thread::Result<T>>>>,
    }
    impl<T> JoinHandle<T> {
        pub fn join(self) -> std::thread::Result<T> {
            join_id(self.id, self.done);
            match self.slot.lock().unwrap_or_else(|e| e.into_inner()).take() {
                Some(r) => r,
                None => panic::resume_unwind(Box::new(SimAbort)),
            }
        }
        pub fn sim_id(&self) -> usize {
            self.id
        }
        pub fn is_finished(&self) -> bool {
            let g = lock();
            g.as_ref().map(|st| matches!(st.threads[self.id].status, Status::Finished | Status::Panicked)).unwrap_or(true)
        }
    }
    fn join_id(id: usize, done: u64) {
    let _rt = RtGuard::new();
        let me = current_thread();
        loop {
            let mut g = lock();
            let st = g.as_mut().unwrap();
            if st.phase == Phase::Ending || matches!(st.threads[id].status, Status::Finished | Status::Panicked) {
                break;
            }
            st.log(0x56, me as u64, id as u64);
            switch(g, me, Status::Blocked, "join", vec![done]);
        }
    }

    #[derive(Default)]
    pub struct Builder {
        name: Option<String>,
    }
    impl Builder {
        pub fn new() -> Self {
            Builder { name: None }
        }
        pub fn name(mut self, n: String) -> Self {
            self.name = Some(n);
            self
        }
        pub fn spawn<F, T>(self, f: F) -> std::io::Result<JoinHandle<T>>
        where
            F: FnOnce() -> T + Send + 'static,
            T: Send + 'static,
        {
            Ok(spawn_named(self.name.unwrap_or_else(|| "t".into()), f))
        }
    }
    pub fn spawn<F, T>(f: F) -> JoinHandle<T>
    where
        F: FnOnce() -> T + Send + 'static,
        T: Send + 'static,
    {
        spawn_named("t".into(), f)
    }
    pub fn spawn_named<F, T>(name: String, f: F) -> JoinHandle<T>
    where
        F: FnOnce() -> T + Send + 'static,
        T: Send + 'static,
    {
        unsafe { spawn_unchecked(name, f) }
    }

    /// # Safety
    /// The caller must make sure everything borrowed by `f` outlives the spawned thread (join it).
    pub unsafe fn spawn_unchecked<'a, F, T>(name: String, f: F) -> JoinHandle<T>
    where
        F: FnOnce() -> T + Send + 'a,
        T: Send + 'a,
    {
        let _rt = RtGuard::new();
        let slot: Arc<OsMutex<Option<std::thread::Result<T>>>> = Arc::new(OsMutex::new(None));
        let slot2 = slot.clone();
        let (id, done, ep, cv) = {
            let mut g = lock();
            let st = g.as_mut().expect("detsim: spawn outside a run");
            let done = new_obj();
            let cv = Arc::new(OsCondvar::new());
            // draw the priority from the stream only under PCT so other policies keep their sequences
            let prio = if matches!(st.policy, Policy::Pct(..)) { st.sched.next() | (1 << 62) } else { 1 << 62 };
            st.threads.push(Th { status: Status::Runnable, cv: cv.clone(), name: name.clone(), steps: 0, blocked_on: vec![], why: "new", prio, started: false, on_condvar: false, blocks: 0, leaked: false });
            let id = st.threads.len() - 1;
            st.log(0x54, id as u64, 0);
            st.tr(|| format!("spawn t{id} {name}"));
            (id, done, st.epoch, cv)
        };
        let body: Box<dyn FnOnce() + Send + 'a> = Box::new(move || {
            CUR.with(|c| c.set(Some((id, ep))));
            let rt = RtGuard::new();
            // wait for the baton
            {
                let mut g = lock();
                loop {
                    let st = g.as_mut().unwrap();
                    if st.phase == Phase::Ending {
                        if st.unwinding == id {
                            st.threads[id].status = Status::Finished;
                            COORD.notify_all();
                            drop(g);
                            drop(f);
                            return;
                        }
                    } else if st.current == id {
                        st.threads[id].started = true;
                        break;
                    }
                    g = cv.wait(g).unwrap_or_else(|e| e.into_inner());
                }
            }
            drop(rt);
            let r = panic::catch_unwind(AssertUnwindSafe(f));
            let _rt = RtGuard::new();
            let aborted = matches!(&r, Err(e) if e.is::<SimAbort>());
            let injected = matches!(&r, Err(e) if e.is::<InjectedPanic>());
            let status = if r.is_ok() { Status::Finished } else { Status::Panicked };
            let msg = match &r {
                Err(e) if !aborted && !injected => Some(
                    e.downcast_ref::<String>().cloned().or_else(|| e.downcast_ref::<&str>().map(|s| s.to_string())).unwrap_or_else(|| "<non-string panic>".into()),
                ),
                _ => None,
            };
            if !aborted {
                *slot2.lock().unwrap_or_else(|e| e.into_inner()) = Some(r);
            } else {
                drop(r);
            }
            let mut g = lock();
            let st = g.as_mut().unwrap();
            if st.phase == Phase::Ending {
                st.threads[id].status = status;
                COORD.notify_all();
                return;
            }
            st.log(0x55, id as u64, status as u64);
            if let Some(m) = msg {
                if st.panic_is_failure && st.failure.is_none() {
                    let name = st.threads[id].name.clone();
                    st.failure = Some(Failure::Panic(name, m));
                }
            }
            wake(st, done);
            switch(g, id, status, "exit", vec![]);
        });
        let body: Box<dyn FnOnce() + Send + 'static> = std::mem::transmute(body);
        let os = std::thread::Builder::new().name(name).stack_size(4 << 20).spawn(body).expect("OS thread");
        lock().as_mut().unwrap().os_threads.push(os);
        if me().is_some() {
            yield_point("spawn");
        }
        JoinHandle { id, done, slot }
    }
    pub fn yield_now() {
        yield_point("yield_now");
    }

    /// Scoped threads: everything spawned through the scope is joined before `scope` returns.
    pub struct Scope<'env> {
        handles: std::cell::RefCell<Vec<(usize, u64)>>,
        _m: PhantomData<&'env mut &'env ()>,
    }
    pub struct ScopedJoinHandle<'s, T> {
        inner: JoinHandle<T>,
        _m: PhantomData<&'s ()>,
    }
    impl<T> ScopedJoinHandle<'_, T> {
        pub fn join(self) -> std::thread::Result<T> {
            self.inner.join()
        }
        pub fn sim_id(&self) -> usize {
            self.inner.id
        }
    }
    impl<'env> Scope<'env> {
        pub fn spawn<'s, F, T>(&'s self, name: &str, f: F) -> ScopedJoinHandle<'s, T>
        where
            F: FnOnce() -> T + Send + 'env,
            T: Send + 'env,
        {
            let h = unsafe { spawn_unchecked(name.to_string(), f) };
            self.handles.borrow_mut().push((h.id, h.done));
            ScopedJoinHandle { inner: h, _m: PhantomData }
        }
    }
    pub fn scope<'env, R>(f: impl FnOnce(&Scope<'env>) -> R) -> R {
        let s = Scope { handles: Default::default(), _m: PhantomData };
        let r = panic::catch_unwind(AssertUnwindSafe(|| f(&s)));
        // children have higher ids than their parent: during teardown they are already gone,
        // and join_id returns at once in the Ending phase
        let aborted = matches!(&r, Err(e) if e.is::<SimAbort>());
        if !aborted {
            for (id, done) in s.handles.borrow().iter() {
                join_id(*id, *done);
            }
        }
        match r {
            Ok(v) => v,
            Err(e) => panic::resume_unwind(e),
        }
    }
}

// ---------------------------------------------------------------- run
/// Run `main` as simulated thread 0 and everything it spawns, to completion; then unwind what is left.
pub fn run<F: FnOnce() + Send + 'static>(cfg: RunConfig, main: F) -> RunResult {
    static EPOCH: std::sync::atomic::AtomicU64 = std::sync::atomic::AtomicU64::new(1);
    let epoch = EPOCH.fetch_add(1, std::sync::atomic::Ordering::SeqCst);
    {
        let mut g = lock();
        assert!(g.is_none(), "one simulation at a time per process");
        let mut sched = SplitMix(mix(cfg.seed, 1));
        let pct_changes = match cfg.policy {
            Policy::Pct(d, len) => (0..d).map(|_| 1 + sched.below(len.max(1) as u64)).collect(),
            _ => vec![],
        };
        *g = Some(State {
            epoch,
            threads: vec![],
            current: 0,
            phase: Phase::Running,
            unwinding: NOBODY,
            sched,
            hash: SplitMix(mix(cfg.seed, 2)),
            aux: SplitMix(mix(cfg.seed, 3)),
            policy: cfg.policy,
            rw_policy: cfg.rw_policy,
            tape_in: cfg.tape,
            tape_pos: 0,
            tape_out: vec![],
            steps: 0,
            switches: 0,
            max_steps: cfg.max_steps,
            spin_limit: cfg.spin_limit,
            quiesce_spin: 0,
            digest: 0xcbf29ce484222325,
            seq: 0,
            failure: None,
            shards: cfg.shards,
            spurious_pct: cfg.spurious_pct,
            trace_on: cfg.trace,
            trace: vec![],
            probes: vec![],
            counters: BTreeMap::new(),
            os_threads: vec![],
            pct_changes,
            panic_is_failure: cfg.panic_is_failure,
            notify: Default::default(),
        });
        ATOMIC_MASK.store(cfg.atomic_mask, std::sync::atomic::Ordering::Relaxed);
        NEXT_OBJ.store(0, std::sync::atomic::Ordering::Relaxed);
        RUN_ACTIVE.store(true, std::sync::atomic::Ordering::Relaxed);
    }
    let _h = thread::spawn_named("main".into(), main);
    // coordinator: wait for the end of the run, then unwind what is left, youngest thread first
    {
        let mut g = lock();
        loop {
            let st = g.as_mut().unwrap();
            if st.phase == Phase::Ending && st.current == NOBODY {
                break;
            }
            g = COORD.wait(g).unwrap_or_else(|e| e.into_inner());
        }
        let n = g.as_ref().unwrap().threads.len();
        // the set of threads is frozen now: nobody holds the baton
        for id in (0..n).rev() {
            let st = g.as_mut().unwrap();
            if matches!(st.threads[id].status, Status::Finished | Status::Panicked) {
                continue;
            }
            st.unwinding = id;
            st.threads[id].cv.notify_all();
            let t0 = std::time::Instant::now();
            loop {
                let st = g.as_mut().unwrap();
                if matches!(st.threads[id].status, Status::Finished | Status::Panicked) {
                    break;
                }
                let (g2, to) = COORD.wait_timeout(g, std::time::Duration::from_millis(200)).unwrap_or_else(|e| e.into_inner());
                g = g2;
                if to.timed_out() && t0.elapsed() > std::time::Duration::from_secs(10) {
                    // could not be unwound (parked inside a destructor while panicking): leave it parked for good
                    let st = g.as_mut().unwrap();
                    st.threads[id].leaked = true;
                    st.threads[id].status = Status::Panicked;
                    break;
                }
            }
        }
        g.as_mut().unwrap().unwinding = NOBODY;
    }
    // join OS threads that are done (leaked ones are left alone)
    let (handles, leaked) = {
        let mut g = lock();
        let st = g.as_mut().unwrap();
        let leaked = st.threads.iter().filter(|t| t.leaked).count();
        (std::mem::take(&mut st.os_threads), leaked)
    };
    let mut leaked = leaked;
    if leaked == 0 {
        // Every thread reported that it is done; joining them is normally immediate. The join is bounded all the same:
        // about once in 10^7 runs a thread was observed still parked here (the hand-shake above has a window that
        // was not found), and an unbounded join then stalls the whole worker process until the watchdog kills it.
        // A thread that does not come back within the bound is left parked for good, like the other leaked ones;
        // the verdict of the run was computed before this point and does not depend on it.
        for h in handles {
            let t0 = std::time::Instant::now();
            while !h.is_finished() && t0.elapsed() < std::time::Duration::from_secs(20) {
                if t0.elapsed() < std::time::Duration::from_millis(2) {
                    std::thread::yield_now();
                } else {
                    std::thread::sleep(std::time::Duration::from_millis(1));
                }
            }
            if h.is_finished() {
                let _ = h.join();
            } else {
                std::mem::forget(h);
                leaked += 1;
            }
        }
    } else {
        for h in handles {
            if h.is_finished() {
                let _ = h.join();
            } else {
                std::mem::forget(h);
            }
        }
    }
    RUN_ACTIVE.store(false, std::sync::atomic::Ordering::Relaxed);
    let st = lock().take().unwrap();
    RunResult {
        failure: st.failure,
        tape: st.tape_out,
        steps: st.steps,
        switches: st.switches,
        digest: st.digest,
        threads: st
            .threads
            .iter()
            .enumerate()
            .map(|(id, t)| ThreadInfo { id, name: t.name.clone(), status: t.status, why: t.why, blocked_on: t.blocked_on.clone(), steps: t.steps })
            .collect(),
        max_threads: st.threads.len(),
        probes: st.probes,
        counters: st.counters,
        trace: st.trace,
        leaked_threads: leaked,
    }
}

// ---------------------------------------------------------------- crate-internal helpers for the primitives
pub(crate) struct Ctx {
    pub g: OsGuard<'static, Option<State>>,
    pub me: usize,
}
pub(crate) enum Mode {
    /// not a simulated thread, or no run active: behave like an uncontended primitive
    Outside,
    /// teardown: never block, never switch
    Ending,
    Sim(Ctx),
}
pub(crate) fn enter() -> Mode {
    let Some(me) = me() else { return Mode::Outside };
    let g = lock();
    match g.as_ref() {
        None => Mode::Outside,
        Some(st) if st.phase == Phase::Ending => {
            if st.unwinding == me && !std::thread::panicking() {
                drop(g);
                panic::resume_unwind(Box::new(SimAbort));
            }
            Mode::Ending
        }
        Some(_) => Mode::Sim(Ctx { g, me }),
    }
}
impl Ctx {
    pub fn log(&mut self, kind: u64, a: u64, b: u64) {
        self.g.as_mut().unwrap().log(kind, a, b);
    }
    pub fn wake(&mut self, obj: u64) {
        wake(self.g.as_mut().unwrap(), obj);
    }
    pub fn wake_one(&mut self, obj: u64) {
        wake_one(self.g.as_mut().unwrap(), obj);
    }
    pub fn decide(&mut self, n: usize) -> usize {
        let st = self.g.as_mut().unwrap();
        st.decide(n, 0, |s| s.below(n as u64) as usize)
    }
    pub fn count(&mut self, label: &'static str) {
        *self.g.as_mut().unwrap().counters.entry(label).or_insert(0) += 1;
    }
    pub fn block(self, status: Status, why: &'static str, on: Vec<u64>, condvar: bool) {
        let Ctx { mut g, me } = self;
        g.as_mut().unwrap().threads[me].on_condvar = condvar;
        switch(g, me, status, why, on);
    }
    pub fn rw_policy(&self) -> RwPolicy {
        self.g.as_ref().unwrap().rw_policy
    }
    pub fn notify_registry(&mut self) -> &mut notify_stub::Registry {
        &mut self.g.as_mut().unwrap().notify
    }
}
/// Wake everything blocked on `obj` without taking a scheduling point (usable from any mode).
pub(crate) fn wake_obj(obj: u64) {
    let mut g = lock();
    if let Some(st) = g.as_mut() {
        if st.phase == Phase::Running {
            wake(st, obj);
        }
    }
}
