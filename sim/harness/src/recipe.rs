//! Type tags, recipe-interpreting compounds and generic dispatch over the harness asset types (DESIGN §6.2).
use crate::ledger::Tracked;
use crate::world::*;
use assets_manager::source::{DirEntry, Source};
use assets_manager::{AnyCache, BoxedError, Compound, Directory, Error, RecursiveDirectory, SharedString};
use serde::{Deserialize, Serialize};
use std::panic::{catch_unwind, AssertUnwindSafe};
use std::sync::Arc;

#[derive(Clone, Copy, Debug, Serialize, Deserialize, PartialEq, Eq, PartialOrd, Ord, Hash)]
pub enum Ty {
    LA,
    LAB,
    LBC,
    LABC,
    LNone,
    LNoneNoDef,
    LDef,
    LE,
    LS,
    RA,
    RB,
    RS,
    ArcLA,
    ArcRA,
    ArcLS,
    DirLA,
    DirLAB,
    DirLE,
    DirArcLA,
    RDirLA,
    RDirLAB,
}
pub const LEAVES: [Ty; 9] = [Ty::LA, Ty::LAB, Ty::LBC, Ty::LABC, Ty::LNone, Ty::LNoneNoDef, Ty::LDef, Ty::LE, Ty::LS];
pub const ALL_TYS: [Ty; 21] = [Ty::LA, Ty::LAB, Ty::LBC, Ty::LABC, Ty::LNone, Ty::LNoneNoDef, Ty::LDef, Ty::LE, Ty::LS, Ty::RA, Ty::RB, Ty::RS, Ty::ArcLA, Ty::ArcRA, Ty::ArcLS, Ty::DirLA, Ty::DirLAB, Ty::DirLE, Ty::DirArcLA, Ty::RDirLA, Ty::RDirLAB];
#[derive(Clone, Copy, Debug, PartialEq, Eq)]
pub enum Kind {
    Leaf,
    Rec,
    Dir,
    RDir,
}
impl Ty {
    /// `HOT_RELOADED` of the Rust type
    pub fn hot(self) -> bool {
        !matches!(self, Ty::LS | Ty::RS | Ty::ArcLS)
    }
    pub fn kind(self) -> Kind {
        match self {
            Ty::RA | Ty::RB | Ty::RS | Ty::ArcRA => Kind::Rec,
            Ty::DirLA | Ty::DirLAB | Ty::DirLE | Ty::DirArcLA => Kind::Dir,
            Ty::RDirLA | Ty::RDirLAB => Kind::RDir,
            _ => Kind::Leaf,
        }
    }
    /// extension list of the leaf type (for Dir types: of the element type)
    pub fn exts(self) -> &'static [&'static str] {
        match self {
            Ty::LA | Ty::LS | Ty::ArcLA | Ty::ArcLS | Ty::DirLA | Ty::DirArcLA | Ty::RDirLA => &["a"],
            Ty::LAB | Ty::LDef | Ty::DirLAB | Ty::RDirLAB => &["a", "b"],
            Ty::LBC => &["b", "c"],
            Ty::LABC => &["a", "b", "c"],
            Ty::LE | Ty::DirLE => &[""],
            _ => &[],
        }
    }
    pub fn has_default(self) -> bool {
        matches!(self, Ty::LNone | Ty::LDef)
    }
    /// the Directory type a RecursiveDirectory loads for its own level
    pub fn dir_of(self) -> Ty {
        match self {
            Ty::RDirLA => Ty::DirLA,
            Ty::RDirLAB => Ty::DirLAB,
            t => t,
        }
    }
}

#[derive(Clone, Debug, Serialize, Deserialize, PartialEq)]
pub enum Ins {
    /// load, the outcome (value or error) is observed
    Load(Ty, String),
    /// load with `?`: an error aborts this load and is wrapped under this asset's id
    LoadQ(Ty, String),
    Cached(Ty, String),
    Owned(Ty, String),
    /// `get_or_insert` of (type, id) with a placeholder value, inside the load (may be the very key being loaded)
    Insert(Ty, String, u64),
    Read(String, String),
    ReadDir(String),
    /// run under `cache.no_record`
    NoRec(Vec<Ins>),
    /// run on a helper thread spawned and joined inside the load
    Thread(Vec<Ins>),
    /// raw read of (id, ext) through *another* hot cache (index into the run context); observation is a constant
    Other(usize, String, String),
    /// run under catch_unwind
    Catch(Vec<Ins>),
    Fail,
    Panic,
    Val(u64),
}

#[derive(Debug)]
pub struct RecipeFail;
impl std::fmt::Display for RecipeFail {
    fn fmt(&self, f: &mut std::fmt::Formatter<'_>) -> std::fmt::Result {
        f.write_str("recipe said fail")
    }
}
impl std::error::Error for RecipeFail {}

#[derive(Debug)]
pub struct RecVal {
    pub obs: Vec<String>,
    pub t: Tracked,
}
impl RecVal {
    pub fn show(&self) -> String {
        format!("R[{}]", self.obs.join(";"))
    }
}

/// Classify a library error into the model's vocabulary: E(id;class).
pub fn err_show(e: &Error) -> String {
    format!("E({};{})", e.id(), class_of(e.reason()))
}
pub fn class_of(r: &(dyn std::error::Error + 'static)) -> String {
    if r.downcast_ref::<DecodeError>().is_some() {
        "conv".into()
    } else if let Some(io) = r.downcast_ref::<std::io::Error>() {
        format!("io:{:?}", IoKind::from_std(io.kind()))
    } else if r.downcast_ref::<RecipeFail>().is_some() {
        "fail".into()
    } else if let Some(inner) = r.downcast_ref::<Error>() {
        format!("nested:{}", err_show(inner))
    } else if r.to_string() == "the asset has neither extension nor default value" {
        "nodefault".into()
    } else if r.downcast_ref::<serde_json::Error>().is_some() || r.downcast_ref::<std::string::FromUtf8Error>().is_some() {
        "badrecipe".into()
    } else {
        format!("other:{r}")
    }
}

pub trait Shown: Compound {
    fn show(&self) -> String;
    /// ids of the tracked values this value owns
    fn tids(&self) -> Vec<u64>;
}
macro_rules! leaf_shown { ($($t:ident),*) => { $( impl Shown for $t { fn show(&self) -> String { self.0.show() } fn tids(&self) -> Vec<u64> { vec![self.0.t.id] } } )* } }
leaf_shown!(LA, LAB, LBC, LABC, LNone, LNoneNoDef, LDef, LE, LS);
impl<T: Shown> Shown for Arc<T> {
    fn show(&self) -> String {
        (**self).show()
    }
    fn tids(&self) -> Vec<u64> {
        (**self).tids()
    }
}
impl<T: assets_manager::asset::DirLoadable> Shown for Directory<T> {
    fn show(&self) -> String {
        format!("D[{}]", self.ids().map(|s| s.to_string()).collect::<Vec<_>>().join(","))
    }
    fn tids(&self) -> Vec<u64> {
        vec![]
    }
}
impl<T: assets_manager::asset::DirLoadable> Shown for RecursiveDirectory<T> {
    fn show(&self) -> String {
        format!("RD[{}]", self.ids().map(|s| s.to_string()).collect::<Vec<_>>().join(","))
    }
    fn tids(&self) -> Vec<u64> {
        vec![]
    }
}
macro_rules! rec_type {
    ($name:ident, $hot:expr) => {
        #[derive(Debug)]
        pub struct $name(pub RecVal);
        impl Compound for $name {
            fn load(cache: AnyCache, id: &SharedString) -> Result<Self, BoxedError> {
                rec_load(stringify!($name), cache, id).map($name)
            }
            const HOT_RELOADED: bool = $hot;
        }
        impl Shown for $name {
            fn show(&self) -> String {
                self.0.show()
            }
            fn tids(&self) -> Vec<u64> {
                vec![self.0.t.id]
            }
        }
    };
}
rec_type!(RA, true);
rec_type!(RB, true);
rec_type!(RS, false);
impl assets_manager::asset::NotHotReloaded for RS {}

/// Run `$body` with `$T` bound to the Rust type of the tag.
#[macro_export]
macro_rules! with_ty {
    ($ty:expr, $T:ident, $body:expr) => {
        match $ty {
            $crate::recipe::Ty::LA => { type $T = $crate::world::LA; $body }
            $crate::recipe::Ty::LAB => { type $T = $crate::world::LAB; $body }
            $crate::recipe::Ty::LBC => { type $T = $crate::world::LBC; $body }
            $crate::recipe::Ty::LABC => { type $T = $crate::world::LABC; $body }
            $crate::recipe::Ty::LNone => { type $T = $crate::world::LNone; $body }
            $crate::recipe::Ty::LNoneNoDef => { type $T = $crate::world::LNoneNoDef; $body }
            $crate::recipe::Ty::LDef => { type $T = $crate::world::LDef; $body }
            $crate::recipe::Ty::LE => { type $T = $crate::world::LE; $body }
            $crate::recipe::Ty::LS => { type $T = $crate::world::LS; $body }
            $crate::recipe::Ty::RA => { type $T = $crate::recipe::RA; $body }
            $crate::recipe::Ty::RB => { type $T = $crate::recipe::RB; $body }
            $crate::recipe::Ty::RS => { type $T = $crate::recipe::RS; $body }
            $crate::recipe::Ty::ArcLA => { type $T = std::sync::Arc<$crate::world::LA>; $body }
            $crate::recipe::Ty::ArcRA => { type $T = std::sync::Arc<$crate::recipe::RA>; $body }
            $crate::recipe::Ty::ArcLS => { type $T = std::sync::Arc<$crate::world::LS>; $body }
            $crate::recipe::Ty::DirLA => { type $T = assets_manager::Directory<$crate::world::LA>; $body }
            $crate::recipe::Ty::DirLAB => { type $T = assets_manager::Directory<$crate::world::LAB>; $body }
            $crate::recipe::Ty::DirLE => { type $T = assets_manager::Directory<$crate::world::LE>; $body }
            $crate::recipe::Ty::DirArcLA => { type $T = assets_manager::Directory<std::sync::Arc<$crate::world::LA>>; $body }
            $crate::recipe::Ty::RDirLA => { type $T = assets_manager::RecursiveDirectory<$crate::world::LA>; $body }
            $crate::recipe::Ty::RDirLAB => { type $T = assets_manager::RecursiveDirectory<$crate::world::LAB>; $body }
        }
    };
}

pub fn any_load(cache: AnyCache, ty: Ty, id: &str) -> Result<String, Error> {
    with_ty!(ty, T, cache.load::<T>(id).map(|h| h.read().show()))
}
pub fn any_owned(cache: AnyCache, ty: Ty, id: &str) -> Result<String, Error> {
    with_ty!(ty, T, cache.load_owned::<T>(id).map(|v| v.show()))
}
pub fn any_cached(cache: AnyCache, ty: Ty, id: &str) -> Option<String> {
    with_ty!(ty, T, cache.get_cached::<T>(id).map(|h| h.read().show()))
}
pub fn any_contains(cache: AnyCache, ty: Ty, id: &str) -> bool {
    with_ty!(ty, T, cache.contains::<T>(id))
}
pub fn any_tids(cache: AnyCache, ty: Ty, id: &str) -> Option<Vec<u64>> {
    with_ty!(ty, T, cache.get_cached::<T>(id).map(|h| h.read().tids()))
}
/// (value, reload id, handle address) of a cached asset
pub fn any_peek(cache: AnyCache, ty: Ty, id: &str) -> Option<(String, usize, usize)> {
    with_ty!(ty, T, cache.get_cached::<T>(id).map(|h| (h.read().show(), crate::props::c18::rid_num(h.last_reload_id()), h as *const _ as usize)))
}

fn show_res(r: Result<String, Error>) -> String {
    match r {
        Ok(s) => format!("ok:{s}"),
        Err(e) => format!("err:{}", err_show(&e)),
    }
}

/// What a recipe observed under no_record / on a helper thread / through another cache is no dependency of the
/// asset: such observations are marked and compared as don't-care by the convergence oracle.
fn mark(masked: bool, s: String) -> String {
    if masked {
        format!("~{s}")
    } else {
        s
    }
}

pub fn run_ins(cache: AnyCache, ins: &Ins, out: &mut Vec<String>, masked: bool) -> Result<(), BoxedError> {
    match ins {
        Ins::Load(ty, id) => out.push(mark(masked, show_res(any_load(cache, *ty, id)))),
        Ins::LoadQ(ty, id) => match any_load(cache, *ty, id) {
            Ok(s) => out.push(mark(masked, format!("ok:{s}"))),
            Err(e) => return Err(Box::new(e)),
        },
        Ins::Cached(ty, id) => out.push(mark(masked, match any_cached(cache, *ty, id) { Some(s) => format!("some:{s}"), None => "none".into() })),
        Ins::Owned(ty, id) => out.push(mark(masked, show_res(any_owned(cache, *ty, id)))),
        Ins::Insert(ty, id, n) => out.push(mark(masked, format!("ins:{}", crate::hist::any_insert(cache, *ty, id, *n)))),
        Ins::Read(id, ext) => {
            let src = cache.raw_source();
            let r = src.read(id, ext);
            out.push(mark(masked, match r { Ok(c) => format!("ok:{}", lossy(c.as_ref())), Err(e) => format!("err:io:{:?}", IoKind::from_std(e.kind())) }));
        }
        Ins::ReadDir(id) => {
            let mut v = vec![];
            let r = cache.raw_source().read_dir(id, &mut |e| v.push(match e { DirEntry::File(i, x) => format!("f:{i}/{x}"), DirEntry::Directory(i) => format!("d:{i}") }));
            v.sort();
            out.push(mark(masked, match r { Ok(()) => format!("ok:[{}]", v.join(",")), Err(e) => format!("err:io:{:?}", IoKind::from_std(e.kind())) }));
        }
        Ins::NoRec(v) => {
            let mut r = Ok(());
            cache.no_record(|| {
                for i in v {
                    r = run_ins(cache, i, out, true);
                    if r.is_err() {
                        break;
                    }
                }
            });
            r?
        }
        Ins::Thread(v) => {
            // the helper thread reaches the cache through the pointer registered by the scenario (AnyCache is not Send)
            let ptr = run_ctx(|c| c.caches.first().copied()).expect("scenario registered no cache for Thread");
            let v2 = v.clone();
            let res: Result<Vec<String>, String> = detsim::thread::scope(|s| {
                s.spawn("helper", move || {
                    let cache = unsafe { &*(ptr as *const assets_manager::AssetCache<SimSource>) }.as_any_cache();
                    let p = assets_manager::hot_reloading::verif::recording_ptr();
                    if p != 0 {
                        detsim::report("C14/recorder-leaked-to-helper-thread", format!("a thread spawned inside a load starts with a recorder installed ({p:#x})"));
                    }
                    let mut o = vec![];
                    for i in &v2 {
                        if let Err(e) = run_ins(cache, i, &mut o, true) {
                            return Err(e.to_string());
                        }
                    }
                    Ok(o)
                })
                .join()
                .unwrap_or_else(|_| Err("helper panicked".into()))
            });
            match res {
                Ok(o) => out.extend(o),
                Err(_) => return Err(Box::new(RecipeFail)),
            }
        }
        Ins::Other(k, id, ext) => {
            let ptr = run_ctx(|c| c.caches.get(1 + *k).copied()).expect("scenario registered no other cache");
            let other = unsafe { &*(ptr as *const assets_manager::AssetCache<SimSource>) }.as_any_cache();
            let _ = other.raw_source().read(id, ext);
            // directories of the other cache as well (seeded change C14-i): the root, the two directories of the
            // generated trees, the parent of the id and the id itself asked as a directory
            let parent = id.rsplit_once('.').map(|(p, _)| p).unwrap_or("");
            for d in ["", "d", "d.e", parent, id.as_str()] {
                let _ = other.raw_source().read_dir(d, &mut |_| {});
            }
            detsim::count("reach.other_cache_read_dir");
            // assets of the other cache too: an asset key of another cache must not become a dependency here, even
            // when this cache holds an asset with the same id and type
            if ext == "a" {
                let _ = other.load::<LA>(id).map(|h| h.read().0.bytes.len());
                let _ = other.get_cached::<LAB>(id);
            } else {
                let _ = other.load::<LAB>(id).map(|h| h.read().0.bytes.len());
                let _ = other.get_cached::<LA>(id);
            }
            out.push("~other".into());
        }
        Ins::Catch(v) => {
            let r = detsim::reraise_abort(catch_unwind(AssertUnwindSafe(|| {
                for i in v {
                    run_ins(cache, i, out, masked)?;
                }
                Ok::<(), BoxedError>(())
            })));
            match r {
                Ok(r) => r?,
                Err(_) => out.push("caught".into()),
            }
        }
        Ins::Fail => return Err(Box::new(RecipeFail)),
        Ins::Panic => {
            detsim::count("fault.recipe_panic");
            std::panic::panic_any(detsim::InjectedPanic("recipe".into()))
        }
        Ins::Val(n) => out.push(format!("v{n}")),
    }
    Ok(())
}

fn rec_load(ty: &'static str, cache: AnyCache, id: &SharedString) -> Result<RecVal, BoxedError> {
    let p0 = assets_manager::hot_reloading::verif::recording_ptr();
    let src = cache.raw_source();
    let text = String::from_utf8(src.read(id, "rc")?.as_ref().to_vec())?;
    let recipe: Vec<Ins> = serde_json::from_str(&text)?;
    let (seq, thread) = (detsim::seq(), detsim::current_thread());
    run_ctx(|c| c.loader_log.push(LoadEvent { seq, thread, what: format!("{ty} {id}") }));
    let t = Tracked::new(format!("{ty} {id}"));
    let mut obs = vec![];
    for ins in &recipe {
        run_ins(cache, ins, &mut obs, false)?;
        // recording of this load resumes after every instruction (nested load, no_record block, caught panic, ...)
        let p1 = assets_manager::hot_reloading::verif::recording_ptr();
        if p1 != p0 {
            detsim::report("C14/recording-not-resumed", format!("load of {id}: recorder was {p0:#x} at the start, {p1:#x} after instruction {ins:?}"));
        }
    }
    Ok(RecVal { obs, t })
}
