//! Orchestration: worker processes (one pinned core each), aggregation, minimisation, replay, known findings.
use crate::common::*;
use crate::props;
use serde::{Deserialize, Serialize};
use serde_json::{json, Value};
use std::collections::{BTreeMap, BTreeSet, HashSet};
use std::io::Write;
use std::path::{Path, PathBuf};
use std::process::{Command, Stdio};
use std::time::{Duration, Instant};

fn arg(args: &[String], name: &str) -> Option<String> {
    args.iter().position(|a| a == name).and_then(|i| args.get(i + 1).cloned())
}
/// Where replay files go: /verif unless a trial run redirects its output (VERIF_OUT_DIR).
pub fn out_dir() -> PathBuf {
    std::env::var_os("VERIF_OUT_DIR").filter(|v| !v.is_empty()).map(PathBuf::from).unwrap_or_else(verif_dir)
}
pub fn verif_dir() -> PathBuf {
    std::env::var_os("VERIF_DIR").map(PathBuf::from).unwrap_or_else(|| PathBuf::from("/verif"))
}
pub fn scratch_dir() -> PathBuf {
    let base = if Path::new("/dev/shm").is_dir() { PathBuf::from("/dev/shm") } else { std::env::temp_dir() };
    let d = base.join(format!("simcheck-{}", std::process::id()));
    let _ = std::fs::create_dir_all(&d);
    d
}

// ------------------------------------------------------------------ known findings
#[derive(Clone, Debug, Deserialize)]
pub struct Finding {
    pub id: String,
    pub property: String,
    pub status: String,
    pub signature: String,
    pub what_fails: String,
}
pub fn load_findings() -> Vec<Finding> {
    let p = verif_dir().join("known_findings.jsonl");
    let Ok(s) = std::fs::read_to_string(&p) else { return vec![] };
    s.lines().filter(|l| !l.trim().is_empty() && !l.starts_with('#')).filter_map(|l| serde_json::from_str::<Finding>(l).ok()).collect()
}
/// An *open* finding whose signature equals `sig` (exact match, or prefix match when the listed signature ends in '*').
pub fn match_finding<'a>(fs: &'a [Finding], prop: &str, sig: &str) -> Option<&'a Finding> {
    fs.iter().find(|f| {
        f.status == "open" && f.property == prop && (f.signature == sig || (f.signature.ends_with('*') && sig.starts_with(f.signature.trim_end_matches('*'))))
    })
}

// ------------------------------------------------------------------ worker
#[derive(Serialize, Deserialize, Default, Debug)]
pub struct WorkerReport {
    pub evaluations: u64,
    pub nontrivial: u64,
    pub steps: u64,
    pub switches: u64,
    pub max_threads: usize,
    pub counters: BTreeMap<String, u64>,
    pub policies: BTreeMap<String, u64>,
    pub known: BTreeMap<String, (u64, String)>,
    pub failures: Vec<FailureRecord>,
    pub samples: Vec<Value>,
    pub digests: Vec<(u64, u64)>,
    pub wall_ms: u64,
    pub distinct_file: Option<String>,
    pub distinct_tapes: u64,
    pub minimise_runs: u64,
}
#[derive(Serialize, Deserialize, Debug, Clone)]
pub struct FailureRecord {
    pub index: u64,
    pub rule: String,
    pub sig: String,
    pub msg: String,
    pub replay: String,
    pub original_size: usize,
    pub minimised_size: usize,
}

fn pin_to_core(k: usize) {
    unsafe {
        let mut set: libc::cpu_set_t = std::mem::zeroed();
        let n = libc::sysconf(libc::_SC_NPROCESSORS_ONLN).max(1) as usize;
        libc::CPU_SET(k % n, &mut set);
        libc::sched_setaffinity(0, std::mem::size_of::<libc::cpu_set_t>(), &set);
    }
}

#[derive(Serialize, Deserialize, Debug)]
pub struct ReplayFile {
    pub case: Case,
    pub expect: Fail,
    pub digest: String,
    pub steps: u64,
    pub note: String,
}

fn same_violation(a: &Fail, b: &Fail) -> bool {
    a.rule == b.rule && a.sig == b.sig
}

/// Joint minimisation of workload and schedule; accepts a candidate only if rule and signature persist.
pub fn minimise(p: &dyn Property, case: &Case, fail: &Fail, first_tape: Vec<u32>, budget: &mut u64) -> (Case, Outcome) {
    let mut best = case.clone();
    best.tape = Some(first_tape);
    let mut best_out = p.execute(&best);
    *budget = budget.saturating_sub(1);
    if best_out.fail.as_ref().map(|f| same_violation(f, fail)) != Some(true) {
        // replaying the recorded tape must reproduce the run; if not, fall back to the seeded run (reported by the caller)
        best.tape = None;
        best_out = p.execute(&best);
        return (best, best_out);
    }
    // 1. shrink the workload (tape kept: any tape is valid for any workload)
    'outer: loop {
        if *budget == 0 {
            break;
        }
        for cand in p.shrink(&best.work) {
            if *budget == 0 {
                break 'outer;
            }
            *budget -= 1;
            let mut c2 = best.clone();
            c2.work = cand;
            let o = p.execute(&c2);
            if o.fail.as_ref().map(|f| same_violation(f, fail)) == Some(true) {
                c2.tape = Some(o.tape.clone());
                best = c2;
                best_out = o;
                continue 'outer;
            }
        }
        break;
    }
    // 2. normalise the tape towards "no preemption": truncate (an exhausted tape keeps the current thread running)
    let mut len = best.tape.as_ref().map(|t| t.len()).unwrap_or(0);
    let mut step = len / 2;
    while step > 0 && *budget > 0 {
        if len >= step {
            let mut c2 = best.clone();
            let mut t = c2.tape.clone().unwrap();
            t.truncate(len - step);
            c2.tape = Some(t);
            *budget -= 1;
            let o = p.execute(&c2);
            if o.fail.as_ref().map(|f| same_violation(f, fail)) == Some(true) {
                len -= step;
                best = c2;
                best_out = o;
                continue;
            }
        }
        step /= 2;
    }
    (best, best_out)
}

pub fn worker_main(args: &[String]) -> i32 {
    let p = props::by_id(&arg(args, "--prop").expect("--prop")).expect("unknown property");
    let vseed: u64 = arg(args, "--verif-seed").unwrap().parse().unwrap();
    let from: u64 = arg(args, "--from").unwrap().parse().unwrap();
    let to: u64 = arg(args, "--to").unwrap().parse().unwrap();
    let stride: u64 = arg(args, "--stride").map(|s| s.parse().unwrap()).unwrap_or(1);
    let tier = if arg(args, "--tier").as_deref() == Some("thorough") { Tier::Thorough } else { Tier::Quick };
    let out = PathBuf::from(arg(args, "--out").unwrap());
    let core: usize = arg(args, "--core").map(|s| s.parse().unwrap()).unwrap_or(0);
    let only: Option<Vec<u64>> = arg(args, "--indexes").map(|s| s.split(',').filter(|x| !x.is_empty()).map(|x| x.parse().unwrap()).collect());
    let deadline = arg(args, "--deadline-s").map(|s| Instant::now() + Duration::from_secs(s.parse().unwrap()));
    pin_to_core(core);
    let findings = load_findings();
    let cur_path = out.with_extension("cur");
    let mut cur = std::fs::File::create(&cur_path).unwrap();
    let t0 = Instant::now();
    let mut rep = WorkerReport::default();
    let mut distinct: HashSet<u64> = HashSet::new();
    let mut tapes: HashSet<u64> = HashSet::new();
    let mut unknown_sigs: BTreeSet<String> = BTreeSet::new();
    let indexes: Box<dyn Iterator<Item = u64>> = match &only {
        Some(v) => Box::new(v.clone().into_iter()),
        None => Box::new((from..to).step_by(stride as usize)),
    };
    for i in indexes {
        if let Some(d) = deadline {
            if Instant::now() > d {
                break;
            }
        }
        {
            use std::os::unix::fs::FileExt;
            let _ = cur.write_at(format!("{i:>20}\n").as_bytes(), 0);
        }
        if rep.evaluations > 0 && rep.evaluations % 256 == 0 {
            write_report(&mut rep, &out, &distinct, tapes.len(), t0);
        }
        let mut case = make_case(p, vseed, i, tier);
        // self-test of the supervisor (never set by the checks): stall once at a given run index
        if let Some(at) = std::env::var("SIMCHECK_TEST_STALL_AT").ok().and_then(|s| s.parse::<u64>().ok()) {
            let marker = std::env::temp_dir().join(format!("simcheck-stalled-{at}"));
            if at == i && !marker.exists() {
                let _ = std::fs::write(&marker, b"x");
                std::thread::sleep(Duration::from_secs(100_000));
            }
        }
        let o = p.execute(&case);
        if let Some(w) = &o.work_override {
            case.work = w.clone();
        }
        rep.evaluations += 1 + o.extra_evals;
        for d in &o.extra_distinct {
            distinct.insert(*d);
        }
        rep.nontrivial += o.extra_distinct.len() as u64;
        rep.steps += o.steps;
        rep.switches += o.switches;
        rep.max_threads = rep.max_threads.max(o.threads);
        *rep.policies.entry(case.knobs.policy.split(':').next().unwrap().to_string()).or_insert(0) += 1;
        for (k, v) in &o.counters {
            *rep.counters.entry(k.clone()).or_insert(0) += v;
        }
        let td = tape_digest(&o.tape);
        tapes.insert(td);
        if o.nontrivial {
            rep.nontrivial += 1;
            distinct.insert(detsim::mix(o.shape, td));
        }
        if o.nontrivial || !o.extra_distinct.is_empty() {
            if rep.samples.len() < 2 && o.fail.is_none() {
                let mut c = serde_json::to_value(&case).unwrap();
                c["tape_len"] = json!(o.tape.len());
                c["steps"] = json!(o.steps);
                rep.samples.push(c);
            }
        }
        if only.is_some() || i % 29 == 0 {
            rep.digests.push((i, o.digest));
        }
        if let Some(f) = &o.fail {
            if let Some(k) = match_finding(&findings, p.id(), &f.sig) {
                let e = rep.known.entry(k.id.clone()).or_insert((0, format!("{} [first at index {i}: {}]", k.what_fails, truncate(&f.msg, 200))));
                e.0 += 1;
            } else if unknown_sigs.insert(f.sig.clone()) {
                let mut budget = 400u64;
                let (mc, mo) = minimise(p, &case, f, o.tape.clone(), &mut budget);
                rep.minimise_runs += 400 - budget;
                let mf = mo.fail.clone().unwrap_or_else(|| f.clone());
                let dir = out_dir().join("replays");
                let _ = std::fs::create_dir_all(&dir);
                let path = dir.join(format!("{}-{}-{}-{}.json", p.id(), flavour(), vseed, i));
                let rf = ReplayFile { case: mc.clone(), expect: mf.clone(), digest: format!("{:016x}", mo.digest), steps: mo.steps, note: format!("minimised from run index {i} of VERIF_SEED {vseed} ({} re-executions); original workload size {} -> {}", 400 - budget, case.work.to_string().len(), mc.work.to_string().len()) };
                std::fs::write(&path, serde_json::to_string_pretty(&rf).unwrap()).unwrap();
                rep.failures.push(FailureRecord { index: i, rule: mf.rule.clone(), sig: mf.sig.clone(), msg: mf.msg.clone(), replay: path.display().to_string(), original_size: case.work.to_string().len(), minimised_size: mc.work.to_string().len() });
                if rep.failures.len() >= 3 {
                    break;
                }
            }
        }
    }
    write_report(&mut rep, &out, &distinct, tapes.len(), t0);
    let _ = std::fs::remove_file(cur_path);
    0
}

fn write_report(rep: &mut WorkerReport, out: &Path, distinct: &HashSet<u64>, ntapes: usize, t0: Instant) {
    rep.wall_ms = t0.elapsed().as_millis() as u64;
    rep.distinct_tapes = ntapes as u64;
    let dpath = out.with_extension("distinct");
    let mut bytes = Vec::with_capacity(distinct.len() * 8);
    for d in distinct {
        bytes.extend_from_slice(&d.to_le_bytes());
    }
    std::fs::write(&dpath, bytes).unwrap();
    rep.distinct_file = Some(dpath.display().to_string());
    let tmp = out.with_extension("json.tmp");
    std::fs::write(&tmp, serde_json::to_string(&rep).unwrap()).unwrap();
    let _ = std::fs::rename(&tmp, out);
}

// ------------------------------------------------------------------ replay
pub fn replay_main(args: &[String]) -> i32 {
    let path = args.get(2).expect("replay <file>");
    let rf: ReplayFile = match std::fs::read_to_string(path).ok().and_then(|s| serde_json::from_str(&s).ok()) {
        Some(r) => r,
        None => {
            eprintln!("cannot read replay file {path}");
            return 2;
        }
    };
    if rf.case.flavour != flavour() {
        eprintln!("replay file is for flavour {} but this binary is {}", rf.case.flavour, flavour());
        return 2;
    }
    let p = props::by_id(&rf.case.prop).expect("unknown property");
    if rf.expect.rule == "crash" {
        let scratch = scratch_dir();
        let r = dies_in_subprocess(&std::env::current_exe().unwrap(), &scratch, &rf.case);
        let _ = std::fs::remove_dir_all(&scratch);
        return match r {
            Some(kind) => {
                println!("REPLAY property={} the process died again ({kind}); recorded: {}", rf.case.prop, rf.expect.sig);
                println!("REPRODUCED exactly (a fresh process executing this case dies)");
                1
            }
            None => {
                println!("REPLAY property={} no crash (recorded: {})", rf.case.prop, rf.expect.sig);
                0
            }
        };
    }
    let o = p.execute(&rf.case);
    if std::env::var_os("SIM_TRACE").is_some() {
        for l in &o.trace {
            println!("{l}");
        }
    }
    let dig = format!("{:016x}", o.digest);
    match &o.fail {
        Some(f) => {
            println!("REPLAY property={} rule={} sig={} digest={} steps={}", rf.case.prop, f.rule, f.sig, dig, o.steps);
            println!("  {}", f.msg);
            if same_violation(f, &rf.expect) && dig == rf.digest {
                println!("REPRODUCED exactly (same rule, signature and event-log digest)");
                1
            } else if same_violation(f, &rf.expect) {
                println!("REPRODUCED the violation, but the event-log digest differs ({} recorded) — tree or binary changed since the file was written", rf.digest);
                1
            } else {
                println!("DIFFERENT violation than recorded ({} / {})", rf.expect.rule, rf.expect.sig);
                1
            }
        }
        None => {
            println!("REPLAY property={} no violation (recorded: {} / {}); digest={} steps={}", rf.case.prop, rf.expect.rule, rf.expect.sig, dig, o.steps);
            0
        }
    }
}

// ------------------------------------------------------------------ orchestrator (one flavour)
struct Child {
    proc: std::process::Child,
    out: PathBuf,
    k: usize,
    gen: usize,
    last_cur: String,
    last_change: Instant,
}

/// Execute one case in a fresh process; returns Some(kind) if the process died.
fn dies_in_subprocess(exe: &Path, scratch: &Path, case: &Case) -> Option<String> {
    let f = scratch.join("trycase.json");
    std::fs::write(&f, serde_json::to_string(case).unwrap()).ok()?;
    // (stderr goes to a file: a child that hangs is killed after two minutes, and a pipe nobody drains could block it)
    let errf = scratch.join("trycase.stderr");
    let mut child = Command::new(exe).args(["trycase", f.to_str().unwrap()]).stdout(Stdio::null()).stderr(std::fs::File::create(&errf).ok()?).spawn().ok()?;
    let t0 = Instant::now();
    let status = loop {
        match child.try_wait() {
            Ok(Some(st)) => break st,
            Ok(None) if t0.elapsed() > Duration::from_secs(120) => {
                let _ = child.kill();
                let _ = child.wait();
                return Some("hang".to_string());
            }
            Ok(None) => std::thread::sleep(Duration::from_millis(5)),
            Err(_) => return None,
        }
    };
    if status.code().is_some() {
        return None;
    }
    let err = std::fs::read_to_string(&errf).unwrap_or_default();
    Some(if err.contains("overflowed its stack") { "stack-overflow" } else if err.contains("double free") || err.contains("corrupt") || err.contains("invalid next size") || err.contains("invalid pointer") { "heap-corruption" } else { "abort" }.to_string())
}
pub fn trycase_main(args: &[String]) -> i32 {
    let Some(case) = args.get(2).and_then(|p| std::fs::read_to_string(p).ok()).and_then(|s| serde_json::from_str::<Case>(&s).ok()) else { return 2 };
    let p = props::by_id(&case.prop).expect("unknown property");
    let o = p.execute(&case);
    o.fail.is_some() as i32
}

pub fn run_main(args: &[String]) -> i32 {
    let pid = arg(args, "--prop").expect("--prop");
    let p = props::by_id(&pid).expect("unknown property");
    let tier = if arg(args, "--tier").as_deref() == Some("thorough") { Tier::Thorough } else { Tier::Quick };
    let tier_s = if tier == Tier::Quick { "quick" } else { "thorough" };
    let vseed: u64 = arg(args, "--seed").map(|s| s.parse().unwrap()).unwrap_or(DEFAULT_SEED);
    let workers: usize = arg(args, "--workers").map(|s| s.parse().unwrap()).unwrap_or_else(|| std::thread::available_parallelism().map(|n| n.get()).unwrap_or(4));
    let info = p.info();
    let runs: u64 = arg(args, "--runs").map(|s| s.parse().unwrap()).unwrap_or(if tier == Tier::Quick { info.runs.0 } else { info.runs.1 });
    let summary_path = arg(args, "--summary").map(PathBuf::from);
    let deadline_s: Option<u64> = arg(args, "--deadline-s").map(|s| s.parse().unwrap());
    let scratch = scratch_dir();
    let exe = std::env::current_exe().unwrap();
    let t0 = Instant::now();
    println!("simcheck property={} flavour={} tier={:?} VERIF_SEED={} runs={} workers={}", pid, flavour(), tier, vseed, runs, workers);

    // interleaved index assignment (worker k takes k, k+W, ...): every worker sees the whole swarm mix
    let spawn = |k: usize, gen: usize, from: u64| -> Child {
        let out = scratch.join(format!("w{k}-{gen}.json"));
        let mut c = Command::new(&exe);
        c.args(["worker", "--prop", &pid, "--verif-seed", &vseed.to_string(), "--from", &from.to_string(), "--to", &runs.to_string(), "--stride", &workers.to_string(), "--tier", tier_s, "--out", out.to_str().unwrap(), "--core", &k.to_string()]);
        if let Some(d) = deadline_s {
            c.args(["--deadline-s", &d.saturating_sub(t0.elapsed().as_secs()).to_string()]);
        }
        c.env("SIMCHECK_SCRATCH", &scratch);
        c.stdout(Stdio::inherit()).stderr(Stdio::null());
        Child { proc: c.spawn().expect("spawn worker"), out, k, gen, last_cur: String::new(), last_change: Instant::now() }
    };
    let mut children: Vec<Child> = (0..workers.min(runs.max(1) as usize)).map(|k| spawn(k, 0, k as u64)).collect();
    let mut harness_errors: Vec<String> = vec![];
    let mut crashes: Vec<(u64, String)> = vec![];
    let mut reports: Vec<WorkerReport> = vec![];
    let read_report = |out: &Path| std::fs::read_to_string(out).ok().and_then(|s| serde_json::from_str::<WorkerReport>(&s).ok());
    // wait with a progress watchdog; a worker that dies is restarted after the run that killed it
    while !children.is_empty() {
        std::thread::sleep(Duration::from_millis(20));
        let mut i = 0;
        while i < children.len() {
            let ch = &mut children[i];
            let curp = ch.out.with_extension("cur");
            let cur = std::fs::read_to_string(&curp).unwrap_or_default();
            if !cur.is_empty() && cur != ch.last_cur {
                ch.last_cur = cur;
                ch.last_change = Instant::now();
            }
            match ch.proc.try_wait() {
                Ok(Some(st)) => {
                    let ch = children.remove(i);
                    if let Some(r) = read_report(&ch.out) {
                        reports.push(r);
                    } else if st.success() {
                        harness_errors.push(format!("worker {} wrote no report", ch.k));
                    }
                    if !st.success() {
                        match ch.last_cur.trim().parse::<u64>() {
                            Ok(ix) => {
                                crashes.push((ix, format!("worker process died: {st}")));
                                let next = ix + workers as u64;
                                if next < runs && ch.gen < 40 && crashes.len() < 200 {
                                    children.push(spawn(ch.k, ch.gen + 1, next));
                                }
                            }
                            Err(_) => harness_errors.push(format!("worker {} died ({st}) before its first run", ch.k)),
                        }
                    }
                    continue;
                }
                Ok(None) => {
                    if ch.last_change.elapsed() > Duration::from_secs(300) {
                        // keep a picture of the stuck process for diagnosis (best effort)
                        if let Ok(o) = Command::new("gdb").args(["-p", &ch.proc.id().to_string(), "-batch", "-ex", "thread apply all bt 12"]).output() {
                            let _ = std::fs::create_dir_all(out_dir().join("replays"));
                            let _ = std::fs::write(out_dir().join("replays").join(format!("hang-{}-{}.txt", pid, ch.proc.id())), o.stdout);
                        }
                        let _ = ch.proc.kill();
                        let _ = ch.proc.wait();
                        let ch = children.remove(i);
                        // what it had finished is in its last checkpoint; the run it was stuck in is handled like a
                        // crashed one (re-executed alone in a fresh process), and the worker's share goes on after it
                        if let Some(r) = read_report(&ch.out) {
                            reports.push(r);
                        }
                        match ch.last_cur.trim().parse::<u64>() {
                            Ok(ix) => {
                                crashes.push((ix, "worker process made no progress for 300 s and was killed".to_string()));
                                let next = ix + workers as u64;
                                if next < runs && ch.gen < 40 && crashes.len() < 200 {
                                    children.push(spawn(ch.k, ch.gen + 1, next));
                                }
                            }
                            Err(_) => harness_errors.push(format!("worker {} made no progress for 300 s before its first run (killed)", ch.k)),
                        }
                        continue;
                    }
                }
                Err(e) => {
                    harness_errors.push(format!("wait: {e}"));
                    children.remove(i);
                    continue;
                }
            }
            i += 1;
        }
    }
    // crashed runs: confirm each distinct kind in a fresh process, then minimise by subprocess executions
    let findings = load_findings();
    let mut violations: Vec<FailureRecord> = vec![];
    let mut known: BTreeMap<String, (u64, String)> = BTreeMap::new();
    let mut crash_sigs: BTreeMap<String, u64> = BTreeMap::new();
    let mut unconfirmed = 0u64;
    let mut notes = 0u64;
    crashes.sort();
    for (n, (ix, what)) in crashes.iter().enumerate() {
        if n >= 12 && !crash_sigs.is_empty() {
            // enough confirmations; the rest is counted under the first signature
            let first = crash_sigs.keys().next().unwrap().clone();
            *crash_sigs.get_mut(&first).unwrap() += 1;
            continue;
        }
        let case = make_case(p, vseed, *ix, tier);
        match dies_in_subprocess(&exe, &scratch, &case) {
            Some(kind) => {
                let sig = format!("{pid}/crash/{kind}");
                let seen = crash_sigs.contains_key(&sig);
                *crash_sigs.entry(sig.clone()).or_insert(0) += 1;
                if seen {
                    continue;
                }
                if let Some(k) = match_finding(&findings, &pid, &sig) {
                    known.entry(k.id.clone()).or_insert((0, k.what_fails.clone()));
                    continue;
                }
                // minimise: accept a smaller workload if the fresh process still dies the same way
                let mut best = case.clone();
                let mut budget = 150u32;
                'outer: loop {
                    for cand in p.shrink(&best.work) {
                        if budget == 0 {
                            break 'outer;
                        }
                        budget -= 1;
                        let mut c2 = best.clone();
                        c2.work = cand;
                        if dies_in_subprocess(&exe, &scratch, &c2).as_deref() == Some(kind.as_str()) {
                            best = c2;
                            continue 'outer;
                        }
                    }
                    break;
                }
                let dir = out_dir().join("replays");
                let _ = std::fs::create_dir_all(&dir);
                let path = dir.join(format!("{}-{}-{}-{}-crash.json", pid, flavour(), vseed, ix));
                let rf = ReplayFile { case: best.clone(), expect: Fail { rule: "crash".into(), msg: format!("{what} ({kind})"), sig: sig.clone() }, digest: String::new(), steps: 0, note: format!("the worker process died while executing run index {ix}; confirmed and minimised by re-executing in fresh processes ({} executions); workload {} -> {} bytes", 150 - budget, case.work.to_string().len(), best.work.to_string().len()) };
                std::fs::write(&path, serde_json::to_string_pretty(&rf).unwrap()).unwrap();
                violations.push(FailureRecord { index: *ix, rule: "crash".into(), sig, msg: format!("{what} ({kind})"), replay: path.display().to_string(), original_size: case.work.to_string().len(), minimised_size: best.work.to_string().len() });
            }
            None => unconfirmed += 1,
        }
    }
    for (sig, n) in &crash_sigs {
        if let Some(k) = match_finding(&findings, &pid, sig) {
            known.get_mut(&k.id).unwrap().0 += n;
        }
    }
    if unconfirmed > 0 {
        // The run in question completed normally when executed alone: it is explored, with its verdict. What killed or
        // stalled the worker is not attributable to it (memory corrupted by the code under test in an earlier run of
        // that process, or a hiccup of the harness); reported, counted in the evidence, and not a verdict of its own.
        println!("HARNESS-NOTE: {unconfirmed} worker death(s) / stall(s) did not reproduce when the same run was executed alone in a fresh process; the runs were completed there");
        notes += unconfirmed as u64;
    }
    // merge
    let mut tot = WorkerReport::default();
    let mut distinct: HashSet<u64> = HashSet::new();
    let mut digests: BTreeMap<u64, u64> = BTreeMap::new();
    for r in reports {
        tot.evaluations += r.evaluations;
        tot.nontrivial += r.nontrivial;
        tot.steps += r.steps;
        tot.switches += r.switches;
        tot.max_threads = tot.max_threads.max(r.max_threads);
        tot.distinct_tapes += r.distinct_tapes;
        tot.minimise_runs += r.minimise_runs;
        for (k, v) in r.counters {
            *tot.counters.entry(k).or_insert(0) += v;
        }
        for (k, v) in r.policies {
            *tot.policies.entry(k).or_insert(0) += v;
        }
        for (k, (n, w)) in r.known {
            let e = known.entry(k).or_insert((0, w));
            e.0 += n;
        }
        for f in r.failures {
            if !violations.iter().any(|v| v.sig == f.sig) {
                violations.push(f);
            }
        }
        if tot.samples.len() < 3 {
            tot.samples.extend(r.samples.into_iter().take(1));
        }
        for (i, d) in r.digests {
            digests.insert(i, d);
        }
        if let Some(f) = r.distinct_file {
            if let Ok(b) = std::fs::read(&f) {
                for c in b.chunks_exact(8) {
                    distinct.insert(u64::from_le_bytes(c.try_into().unwrap()));
                }
            }
        }
    }
    // determinism: re-run a sample of indexes in another process, on another core, and compare event-log digests
    let sample: Vec<u64> = digests.keys().copied().take(400).collect();
    let mut determinism_checked = 0u64;
    if !sample.is_empty() && violations.is_empty() {
        let out = scratch.join("recheck.json");
        let list = sample.iter().map(|x| x.to_string()).collect::<Vec<_>>().join(",");
        let st = Command::new(&exe).args(["worker", "--prop", &pid, "--verif-seed", &vseed.to_string(), "--from", "0", "--to", "0", "--indexes", &list, "--tier", tier_s, "--out", out.to_str().unwrap(), "--core", "7"]).status();
        match st.ok().filter(|s| s.success()).and_then(|_| std::fs::read_to_string(&out).ok()).and_then(|s| serde_json::from_str::<WorkerReport>(&s).ok()) {
            Some(r) => {
                for (i, d) in r.digests {
                    determinism_checked += 1;
                    if digests.get(&i) != Some(&d) {
                        harness_errors.push(format!("NONDETERMINISM: run index {i} gave event-log digest {:016x} then {:016x}", digests.get(&i).copied().unwrap_or(0), d));
                    }
                }
            }
            None => harness_errors.push("determinism re-check worker failed".into()),
        }
    }
    // every new violation must replay in a fresh process; those that do not are reported separately
    let mut unstable: Vec<FailureRecord> = vec![];
    violations.retain(|v| {
        if v.rule == "crash" {
            return true;
        }
        let o = Command::new(&exe).args(["replay", &v.replay]).output();
        let ok = matches!(&o, Ok(o) if o.status.code() == Some(1) && String::from_utf8_lossy(&o.stdout).contains("REPRODUCED exactly"));
        if !ok {
            unstable.push(v.clone());
        }
        ok
    });
    for v in &unstable {
        let _ = std::fs::remove_file(&v.replay);
        harness_errors.push(format!("a violation ({}) found at run index {} did not replay exactly in a fresh process (memory corruption by the code under test, or a nondeterministic harness)", v.sig, v.index));
    }
    let wall = t0.elapsed().as_secs_f64();
    for (id, (n, what)) in &known {
        println!("KNOWN-FINDING: property={pid} {id} ({n} runs) {what}");
    }
    for v in &violations {
        println!("VIOLATION property={} replay={}", pid, v.replay);
        println!("  rule={} sig={} (run index {}, workload {} -> {} bytes)", v.rule, v.sig, v.index, v.original_size, v.minimised_size);
        println!("  {}", truncate(&v.msg, 600));
    }
    for e in &harness_errors {
        println!("HARNESS-ERROR: {e}");
    }
    let mut counters_out = tot.counters.clone();
    if notes > 0 {
        counters_out.insert("harness.unconfirmed_worker_deaths_or_stalls".into(), notes);
    }
    let summary = json!({
        "property": pid, "flavour": flavour(), "tier": if tier == Tier::Quick {"quick"} else {"thorough"}, "seed": vseed,
        "evaluations": tot.evaluations, "nontrivial_runs": tot.nontrivial, "distinct_nontrivial": distinct.len(),
        "distinct_tapes_sum_over_workers": tot.distinct_tapes,
        "simulated_steps": tot.steps, "context_switches": tot.switches, "max_threads": tot.max_threads,
        "counters": counters_out, "policies": tot.policies, "samples": tot.samples,
        "known_findings": known.iter().map(|(k, (n, w))| json!({"id": k, "runs": n, "what": w})).collect::<Vec<_>>(),
        "violations": violations.iter().map(|v| json!({"rule": v.rule, "sig": v.sig, "replay": v.replay, "msg": v.msg, "index": v.index})).collect::<Vec<_>>(),
        "harness_errors": harness_errors, "determinism_rechecked": determinism_checked,
        "minimise_reexecutions": tot.minimise_runs,
        "wall_s": wall, "runs_per_hour": if wall > 0.0 { (tot.evaluations as f64 / wall * 3600.0) as u64 } else { 0 },
        "workers": workers,
    });
    println!("SUMMARY flavour={} evaluations={} nontrivial={} distinct_nontrivial={} steps={} wall_s={:.1} runs/h={} determinism_rechecked={}", flavour(), tot.evaluations, tot.nontrivial, distinct.len(), tot.steps, wall, summary["runs_per_hour"], determinism_checked);
    if let Some(sp) = summary_path {
        std::fs::write(sp, serde_json::to_string_pretty(&summary).unwrap()).unwrap();
    }
    let _ = std::fs::remove_dir_all(&scratch);
    // a violation that replays exactly is a verdict even if other workers were wrecked on the way (e.g. by heap corruption)
    if !violations.is_empty() {
        1
    } else if !harness_errors.is_empty() {
        2
    } else {
        0
    }
}
