//! C09 — faults while loading are contained (fault enumeration: every read index and loader invocation of each sampled scenario).
use crate::common::*;
use crate::ledger::{self, Tracked};
use crate::world::*;
use assets_manager::hot_reloading::verif::recording_ptr;
use assets_manager::source::Source;
use assets_manager::{AnyCache, AssetCache, BoxedError, Compound, SharedString};
use detsim::SplitMix;
use serde::{Deserialize, Serialize};
use serde_json::Value;
use std::collections::BTreeMap;
use std::panic::{catch_unwind, AssertUnwindSafe};

/// Compound with nested loads; entries: "leaf:k" (load, error observed), "must:k" (load, error propagated with ?),
/// "try:k" (load under catch_unwind), "own:k" (load_owned), "q" (load of another Nest).
pub struct Nest {
    pub seen: Vec<String>,
    pub t: Tracked,
}
impl Compound for Nest {
    fn load(cache: AnyCache, id: &SharedString) -> Result<Self, BoxedError> {
        let p0 = recording_ptr();
        let source = cache.raw_source();
        let text = String::from_utf8(source.read(id, "n")?.as_ref().to_vec())?;
        let t = Tracked::new(format!("nest {id}"));
        let mut seen = vec![];
        for e in text.split_whitespace() {
            let (kind, what) = e.split_once(':').unwrap_or(("nest", e));
            let obs = match kind {
                "leaf" => cache.load::<LAB>(what).map(|h| h.read().0.show()).map_err(|e| e.id().to_string()),
                "must" => Ok(cache.load::<LAB>(what)?.read().0.show()),
                "own" => cache.load_owned::<LAB>(what).map(|v| v.0.show()).map_err(|e| e.id().to_string()),
                "try" => match detsim::reraise_abort(catch_unwind(AssertUnwindSafe(|| cache.load::<LAB>(what).map(|h| h.read().0.show()).map_err(|e| e.id().to_string())))) {
                    Ok(r) => r,
                    Err(_) => Err("panicked".to_string()),
                },
                _ => cache.load::<Nest>(what).map(|h| format!("{:?}", h.read().seen)).map_err(|e| e.id().to_string()),
            };
            // recording of *this* load resumes after the nested load, however it ended
            let p1 = recording_ptr();
            if p1 != p0 {
                detsim::report("C09/recording-not-restored-in-load", format!("inside the load of {id}: recorder was {p0:#x} before the nested {e}, {p1:#x} after it"));
            }
            seen.push(format!("{obs:?}"));
        }
        Ok(Nest { seen, t })
    }
}

#[derive(Clone, Debug, Serialize, Deserialize, PartialEq)]
pub enum Op {
    LoadLeaf(usize),
    OwnedLeaf(usize),
    LoadNest(usize),
    Edit(usize),
    HotReload,
    GetOrInsert(usize),
    /// load of a leaf type with two extensions and a default_value (a failed read falls back, the load succeeds)
    LoadDef(usize),
    /// recursive directory load of the root
    LoadRecDir,
}
#[derive(Clone, Copy, Debug, Serialize, Deserialize, PartialEq)]
pub enum Pos {
    Read(u64, IoKind),
    Loader(u64, LoaderFault),
}
#[derive(Clone, Debug, Serialize, Deserialize)]
pub struct Work {
    pub nleaves: usize,
    /// which leaves exist with extension a / b
    pub ext_a: Vec<bool>,
    pub ext_b: Vec<bool>,
    pub nests: Vec<Vec<String>>,
    pub ops: Vec<Op>,
    pub only: Option<Pos>,
}
const KINDS: [IoKind; 4] = [IoKind::NotFound, IoKind::PermissionDenied, IoKind::Interrupted, IoKind::Other];

#[derive(Clone, Debug, Default)]
struct Final {
    state: BTreeMap<String, String>,
    /// values cached after each operation (fault-free run: the reference for containment)
    snaps: Vec<BTreeMap<String, String>>,
    reads: u64,
    loader_calls: u64,
    fired: bool,
    fired_on_reloader: bool,
}

pub struct C09;
impl Property for C09 {
    fn id(&self) -> &'static str {
        "C09"
    }
    fn info(&self) -> PropInfo {
        PropInfo {
            level: "fault_enumeration",
            rule: "one evaluation = one simulated run with one fault position; for every sampled scenario a fault-free dry run counts its source reads R and loader invocations L, then the scenario is re-run once for EVERY read index x {NotFound, PermissionDenied, Interrupted, Other} and EVERY loader invocation x {Err, panic}; a run is non-trivial when its fault actually fired",
            real: &["src/anycache.rs (load_entry, reload_untyped)", "src/asset.rs (load_from_source, load_and_record)", "src/hot_reloading/records.rs (CellGuard, RECORDING thread-local)", "src/hot_reloading/mod.rs + dependencies.rs (reload on the reloader thread)", "src/utils/private.rs (poison handling)"],
            stub: &["Source (in-memory; fault plan by read index)", "loader outcome (fault plan by invocation index)", "locks/channels/scheduler (detsim)"],
            assumptions: &["fault positions are enumerated exhaustively per scenario; scenarios and schedules are sampled", "after the fault the source is repaired (the plan is one-shot), every file is notified and a final hot_reload must return and converge to the fault-free final state"],
            runs: (12_000, 400_000),
        }
    }
    fn generate(&self, g: &mut SplitMix, k: &mut SplitMix, _tier: Tier) -> (Knobs, Value) {
        let mut knobs = Knobs::draw(k);
        knobs.max_steps = 40_000;
        let nleaves = 1 + g.below(3) as usize;
        let nn = g.below(3) as usize;
        let nests = (0..nn)
            .map(|i| {
                (0..1 + g.below(3))
                    .map(|_| {
                        let k = g.below(nleaves as u64);
                        match g.below(6) {
                            0 | 1 => format!("leaf:k{k}"),
                            2 => format!("must:k{k}"),
                            3 => format!("try:k{k}"),
                            4 => format!("own:k{k}"),
                            _ if i > 0 => format!("n{}", g.below(i as u64)),
                            _ => format!("leaf:k{k}"),
                        }
                    })
                    .collect()
            })
            .collect();
        let ops = (0..2 + g.below(6))
            .map(|_| match g.below(10) {
                0 | 1 => Op::LoadLeaf(g.below(nleaves as u64) as usize),
                2 => Op::OwnedLeaf(g.below(nleaves as u64) as usize),
                3 | 4 if nn > 0 => Op::LoadNest(g.below(nn as u64) as usize),
                5 | 6 => Op::Edit(g.below(nleaves as u64) as usize),
                7 | 8 => Op::HotReload,
                9 => match g.below(3) {
                    0 => Op::GetOrInsert(g.below(2) as usize),
                    1 => Op::LoadDef(g.below(nleaves as u64) as usize),
                    _ => Op::LoadRecDir,
                },
                _ => Op::LoadLeaf(g.below(nleaves as u64) as usize),
            })
            .collect();
        let w = Work { nleaves, ext_a: (0..nleaves).map(|_| g.chance(3, 4)).collect(), ext_b: (0..nleaves).map(|_| g.chance(1, 2)).collect(), nests, ops, only: None };
        (knobs, serde_json::to_value(w).unwrap())
    }
    fn execute(&self, case: &Case) -> Outcome {
        let w: Work = serde_json::from_value(case.work.clone()).unwrap();
        let shape = fnv(case.work.to_string().as_bytes());
        let run = |pos: Option<Pos>, expect: Option<Final>| -> (Outcome, Final) {
            let fin = shared(Final::default());
            let fin2 = fin.clone();
            let mut cfg = case.knobs.to_config(case.seed, case.tape.clone());
            cfg.panic_is_failure = true;
            reset_run();
            let w2 = w.clone();
            let r = detsim::run(cfg, move || scenario(w2, pos, expect, fin2));
            let f = fin.lock().unwrap().clone();
            let fired = f.fired;
            let on_rel = f.fired_on_reloader;
            let o = outcome_from(r, fired, detsim::mix(shape, fnv(format!("{pos:?}").as_bytes())), |fl| match fl {
                detsim::Failure::Deadlock(d) if d.contains("assets_hot_reload:Panicked") => "C09/reload-panic-kills-reloader".to_string(),
                fl => {
                    if on_rel {
                        format!("{}@reload", fl.rule())
                    } else {
                        fl.rule()
                    }
                }
            });
            (o, f)
        };
        if let Some(pos) = w.only {
            // replay of one fault position: the fault-free final state is recomputed first
            let (_, dry) = run(None, None);
            let (o, _) = run(Some(pos), Some(dry));
            return o;
        }
        let (mut total, dry) = run(None, None);
        if total.fail.is_some() {
            return total;
        }
        let mut positions = vec![];
        for k in 0..dry.reads {
            for kind in KINDS {
                positions.push(Pos::Read(k, kind));
            }
        }
        for k in 0..dry.loader_calls {
            positions.push(Pos::Loader(k, LoaderFault::Err));
            positions.push(Pos::Loader(k, LoaderFault::Panic));
        }
        total.nontrivial = false;
        for pos in positions {
            let (o, _) = run(Some(pos), Some(dry.clone()));
            total.extra_evals += 1;
            total.steps += o.steps;
            total.switches += o.switches;
            for (k, v) in &o.counters {
                *total.counters.entry(k.clone()).or_insert(0) += v;
            }
            if o.nontrivial {
                total.extra_distinct.push(detsim::mix(o.shape, tape_digest(&o.tape)));
            }
            if o.fail.is_some() {
                let mut w2 = w.clone();
                w2.only = Some(pos);
                total.fail = o.fail;
                total.tape = o.tape;
                total.digest = o.digest;
                total.work_override = Some(serde_json::to_value(w2).unwrap());
                break;
            }
        }
        total
    }
    fn shrink(&self, work: &Value) -> Vec<Value> {
        let w: Work = serde_json::from_value(work.clone()).unwrap();
        let mut out = vec![];
        for i in 0..w.ops.len() {
            let mut x = w.clone();
            x.ops.remove(i);
            out.push(x);
        }
        if let Some(Pos::Read(k, kind)) = w.only {
            for k2 in 0..k {
                let mut x = w.clone();
                x.only = Some(Pos::Read(k2, kind));
                out.push(x);
            }
        }
        if let Some(Pos::Loader(k, f)) = w.only {
            for k2 in 0..k {
                let mut x = w.clone();
                x.only = Some(Pos::Loader(k2, f));
                out.push(x);
            }
        }
        for n in 0..w.nests.len() {
            for e in 0..w.nests[n].len() {
                if w.nests[n].len() > 1 {
                    let mut x = w.clone();
                    x.nests[n].remove(e);
                    out.push(x);
                }
            }
        }
        out.into_iter().map(|x| serde_json::to_value(x).unwrap()).collect()
    }
}

fn snapshot(cache: &AssetCache<SimSource>, w: &Work) -> BTreeMap<String, (String, usize)> {
    let mut m = BTreeMap::new();
    for k in 0..w.nleaves {
        let id = format!("k{k}");
        if cache.contains::<LAB>(&id) {
            let h = cache.get_cached::<LAB>(&id).unwrap();
            m.insert(format!("LAB {id}"), (h.read().0.show(), crate::props::c18::rid_num(h.last_reload_id())));
        }
    }
    for n in 0..w.nests.len() {
        let id = format!("n{n}");
        if cache.contains::<Nest>(&id) {
            let h = cache.get_cached::<Nest>(&id).unwrap();
            m.insert(format!("Nest {id}"), (format!("{:?}", h.read().seen), crate::props::c18::rid_num(h.last_reload_id())));
        }
    }
    for k in 0..w.nleaves {
        let id = format!("k{k}");
        if cache.contains::<LDef>(&id) {
            let h = cache.get_cached::<LDef>(&id).unwrap();
            m.insert(format!("LDef {id}"), (h.read().0.show(), crate::props::c18::rid_num(h.last_reload_id())));
        }
    }
    for d in ["", "sub"] {
        if cache.contains::<assets_manager::RecursiveDirectory<LA>>(d) {
            let h = cache.get_cached::<assets_manager::RecursiveDirectory<LA>>(d).unwrap();
            m.insert(format!("RDir {d:?}"), (format!("{:?}", h.read().ids().collect::<Vec<_>>()), crate::props::c18::rid_num(h.last_reload_id())));
        }
        if cache.contains::<assets_manager::Directory<LA>>(d) {
            let h = cache.get_cached::<assets_manager::Directory<LA>>(d).unwrap();
            m.insert(format!("Dir {d:?}"), (format!("{:?}", h.read().ids().collect::<Vec<_>>()), crate::props::c18::rid_num(h.last_reload_id())));
        }
    }
    for i in 0..2 {
        let id = format!("g{i}");
        if cache.contains::<TV>(&id) {
            m.insert(format!("TV {id}"), (format!("{}", cache.get_cached::<TV>(&id).unwrap().read().n), 0));
        }
    }
    m
}

/// Archives over a reader that misbehaves *after* the archive was opened (short reads, EINTR, a hard error at the k-th
/// operation): a load through a cache either fails or yields exactly the stored bytes, never a partly filled value,
/// and nothing is cached by a failed load; the same load succeeds once the reader behaves.
fn archives_over_faulty_reader(sel: u64) {
    use super::c04::{build_tar, build_zip, ArcOpts, FsTree, RFault, SimReader};
    use assets_manager::source::{Tar, Zip};
    use crate::props::c03::PBytes;
    let mut t = FsTree::default();
    let contents: Vec<(String, Vec<u8>)> = (0..3).map(|i| (format!("f{i}"), (0..(700 + 1500 * i + (sel as usize % 97))).map(|j| (j % 251) as u8 + 1).collect())).collect();
    for (id, data) in &contents {
        t.add_file(id, "txt", data.clone());
    }
    let opts = ArcOpts { order: sel | 1, dir_members: sel % 2 == 0, dot_prefix: false, gnu: sel % 3 == 0, deflate: false, extra: 0 };
    let kind = [crate::world::IoKind::PermissionDenied, crate::world::IoKind::UnexpectedEof, crate::world::IoKind::Other][(sel % 3) as usize];
    let fault = match sel % 4 {
        0 => RFault::Short(1 + (sel % 300) as usize),
        1 => RFault::HardAt(sel % 6, kind),
        2 => RFault::Eintr(2 + sel % 3),
        _ => RFault::Short(512),
    };
    fn run<S: assets_manager::source::Source + Send + Sync + 'static>(name: &str, src: S, ctl: super::c04::ReaderCtl, contents: &[(String, Vec<u8>)], fault: RFault) {
        ctl.opened();
        let cache = AssetCache::without_hot_reloading(src);
        for round in 0..2 {
            for (id, data) in contents {
                match cache.load::<PBytes>(id) {
                    Ok(h) => {
                        let got = h.read().0.clone();
                        detsim::check(got == *data, "C09/partial-value-from-archive", || format!("{name} over a reader with {fault:?}: load({id}) returned {} bytes that differ from the {} stored ones (first difference at {:?}; zero bytes in the result: {})", got.len(), data.len(), got.iter().zip(data.iter()).position(|(a, b)| a != b), got.iter().filter(|b| **b == 0).count()));
                    }
                    Err(e) => {
                        detsim::check(ctl.fired() > 0, "C09/archive-load-fails-without-fault", || format!("{name}: load({id}) failed without an injected reader fault: {}", e.reason()));
                        detsim::check(!cache.contains::<PBytes>(id), "C09/failed-load-cached-something", || format!("{name}: load({id}) failed but the key is cached"));
                        detsim::check(round == 0 || !matches!(fault, RFault::HardAt(..)), "C09/no-recovery-after-repair", || format!("{name}: load({id}) still fails after the one-shot reader fault: {}", e.reason()));
                        detsim::count("reach.archive_load_failed_on_reader_fault");
                    }
                }
            }
        }
        if ctl.fired() > 0 {
            detsim::count("reach.archive_read_under_reader_fault");
        }
    }
    let (r, ctl) = SimReader::with_fault(build_tar(&t, &opts), fault);
    if let Ok(tar) = Tar::from_reader(r) {
        run("tar", tar, ctl, &contents, fault);
    }
    let (r, ctl) = SimReader::with_fault(build_zip(&t, &opts), fault);
    if let Ok(zip) = Zip::from_reader(r) {
        run("zip", zip, ctl, &contents, fault);
    }
}

fn scenario(w: Work, pos: Option<Pos>, expect: Option<Final>, fin: Shared<Final>) {

    let mut tree = Tree::default();
    for k in 0..w.nleaves {
        if w.ext_a[k] {
            tree.put(&format!("k{k}"), "a", format!("a0-{k}").as_bytes());
        }
        if w.ext_b[k] {
            tree.put(&format!("k{k}"), "b", format!("b0-{k}").as_bytes());
        }
    }
    for (n, ents) in w.nests.iter().enumerate() {
        tree.put(&format!("n{n}"), "n", ents.join(" ").as_bytes());
    }
    tree.put("sub.s0", "a", b"s0");
    tree.put("sub.deep.s1", "a", b"s1");
    let src = SimSource::new(tree, HotMode::Custom, 3);
    let cache = AssetCache::with_source(src.clone());
    match pos {
        Some(Pos::Read(k, kind)) => src.set_plan([(k, kind)].into_iter().collect()),
        Some(Pos::Loader(k, f)) => run_ctx(|c| {
            c.loader_plan.insert(k, f);
        }),
        None => {}
    }
    let fired = || run_ctx(|c| c.faults_fired);
    let mut ver = 0;
    for (oi, op) in w.ops.iter().enumerate() {
        let before = snapshot(&cache, &w);
        let f0 = fired();
        let reads0 = src.reads();
        let op_start_seq = detsim::seq();
        // Ok(Some(description)) / Ok(None) for unit ops / Err(id) / panicked
        let res: std::thread::Result<Result<String, String>> = detsim::reraise_abort(catch_unwind(AssertUnwindSafe(|| match op {
            Op::LoadLeaf(k) => cache.load::<LAB>(&format!("k{k}")).map(|h| h.read().0.show()).map_err(|e| e.id().to_string()),
            Op::OwnedLeaf(k) => cache.load_owned::<LAB>(&format!("k{k}")).map(|v| v.0.show()).map_err(|e| e.id().to_string()),
            Op::LoadNest(n) => cache.load::<Nest>(&format!("n{n}")).map(|h| format!("{:?}", h.read().seen)).map_err(|e| e.id().to_string()),
            Op::Edit(k) => {
                ver += 1;
                let ext = if w.ext_a[*k] || !w.ext_b[*k] { "a" } else { "b" };
                src.tree(|t| t.put(&format!("k{k}"), ext, format!("{ext}{ver}-{k}").as_bytes()));
                src.notify(file_entry(&format!("k{k}"), ext));
                Ok(String::new())
            }
            Op::HotReload => {
                cache.hot_reload();
                Ok(String::new())
            }
            Op::LoadDef(k) => cache.load::<LDef>(&format!("k{k}")).map(|h| h.read().0.show()).map_err(|e| e.id().to_string()),
            Op::LoadRecDir => cache.load_rec_dir::<LA>("").map(|h| format!("{:?}", h.read().ids().collect::<Vec<_>>())).map_err(|e| e.id().to_string()),
            Op::GetOrInsert(i) => Ok(format!("{}", cache.get_or_insert::<TV>(&format!("g{i}"), TV { n: 40 + *i as u64, t: Tracked::new("tv") }).read().n)),
        })));
        let hit_here = fired() > f0;
        detsim::check(recording_ptr() == 0, "C09/recording-not-restored", || format!("op {oi} {op:?}: the calling thread's recorder is {:#x} after the call returned (result {res:?}), it was null before", recording_ptr()));
        let after = snapshot(&cache, &w);
        // listing the directory that was asked for must not fail silently: an unreadable *sub*-directory is skipped, not the directory itself
        if *op == Op::LoadRecDir && hit_here {
            let failed_root_listing = src.log().iter().rev().take_while(|l| l.seq > 0).any(|l| l.op == 'd' && l.id.is_empty() && !l.ok && l.seq >= op_start_seq);
            if failed_root_listing {
                detsim::check(!matches!(res, Ok(Ok(_))), "C09/partial-directory-listing-returned", || format!("op {oi}: listing the root failed with an injected error during load_rec_dir(\"\"), yet the call returned {res:?}"));
            }
        }
        let requested = match op {
            Op::LoadDef(k) => Some(format!("k{k}")),
            Op::LoadRecDir => Some(String::new()),
            Op::LoadLeaf(k) | Op::OwnedLeaf(k) => Some(format!("k{k}")),
            Op::LoadNest(n) => Some(format!("n{n}")),
            _ => None,
        };
        match &res {
            Ok(Err(id)) => detsim::check(Some(id) == requested.as_ref(), "C09/error-names-wrong-id", || format!("op {oi} {op:?} failed with an error naming {id:?}")),
            Err(_) => detsim::check(hit_here && matches!(pos, Some(Pos::Loader(_, LoaderFault::Panic))), "C09/unexpected-panic", || format!("op {oi} {op:?} panicked but no loader panic was injected in it")),
            Ok(Ok(_)) => {}
        }
        if *op != Op::HotReload {
            // values already cached are untouched; a failed call adds nothing under the requested key
            for (k, v) in &before {
                detsim::check(after.get(k) == Some(v), "C09/cached-value-touched", || format!("op {oi} {op:?} (result {res:?}): {k} was {v:?}, now {:?}", after.get(k)));
            }
            if !matches!(res, Ok(Ok(_))) {
                if let Some(id) = &requested {
                    let key = match op {
                        Op::LoadNest(_) => format!("Nest {id}"),
                        Op::LoadDef(_) => format!("LDef {id}"),
                        Op::LoadRecDir => format!("RDir {id:?}"),
                        _ => format!("LAB {id}"),
                    };
                    detsim::check(before.contains_key(&key) || !after.contains_key(&key), "C09/failed-load-cached-something", || format!("op {oi} {op:?} failed ({res:?}) but {key} is now cached: {:?}", after.get(&key)));
                }
            }
        } else {
            // a reload either replaces a value completely or leaves it alone; reload ids move by at most one
            for (k, (v, id)) in &before {
                let (v2, id2) = after.get(k).cloned().unwrap_or_default();
                detsim::check(after.contains_key(k) && (id2 == *id || id2 == id + 1) && (id2 != *id || v2 == *v), "C09/reload-inconsistent", || format!("hot_reload (op {oi}): {k} was {v:?}/{id}, now {v2:?}/{id2}"));
            }
        }
        // no partially built value: every live tracked value is reachable from the cache
        let live = ledger::live();
        // (directory listings own no tracked value)
        let with_value = after.keys().filter(|k| !k.starts_with("Dir") && !k.starts_with("RDir")).count();
        detsim::check(live.len() == with_value, "C09/partial-value-or-leak", || format!("after op {oi} {op:?} ({res:?}): {} tracked values are alive but {} entries are cached: live {live:?}, cached {:?}", live.len(), after.len(), after.keys().collect::<Vec<_>>()));
        fin.lock().unwrap().snaps.push(after.iter().map(|(k, v)| (k.clone(), v.0.clone())).collect());
        if hit_here && *op == Op::HotReload {
            // containment: one fault makes one load fail. Compared with the fault-free run at the same point, only that
            // asset and the compounds that (transitively) look at its id may differ; every other asset notified for
            // this pass must have been reloaded all the same.
            if let Some(reference) = expect.as_ref().and_then(|e| e.snaps.get(oi)) {
                let differ: Vec<&String> = after.iter().filter(|(k, v)| reference.get(*k) != Some(&v.0)).map(|(k, _)| k).collect();
                let id_of = |k: &str| k.split_once(' ').map(|x| x.1.trim_matches('"').to_string()).unwrap_or_default();
                fn nest_sees(w: &Work, n: usize, x: &str, depth: usize) -> bool {
                    depth < 8 && w.nests.get(n).map(|ents| ents.iter().any(|e| match e.split_once(':') {
                        Some((_, what)) => what == x,
                        None => e == x || e.strip_prefix('n').and_then(|m| m.parse::<usize>().ok()).map(|m| nest_sees(w, m, x, depth + 1)).unwrap_or(false),
                    })).unwrap_or(false)
                }
                let explained = differ.is_empty() || differ.iter().any(|root| {
                    let x = id_of(root);
                    differ.iter().all(|k| k == root || match k.split_once(' ') {
                        Some(("Nest", n)) => n.strip_prefix('n').and_then(|m| m.parse::<usize>().ok()).map(|m| nest_sees(&w, m, &x, 0)).unwrap_or(false),
                        Some((t, _)) if t.starts_with("RDir") || t.starts_with("Dir") => true,
                        _ => false,
                    })
                });
                detsim::check(explained, "C09/fault-not-contained", || format!("hot_reload (op {oi}) with one injected fault {pos:?}: compared with the fault-free run at this point these entries differ: {differ:?}; one failed load explains one asset and the compounds that look at it, not all of these (cache {after:?}, fault-free {reference:?})"));
                if differ.len() >= 1 && after.len() >= 3 {
                    detsim::count("reach.fault_in_a_pass_with_other_reloads");
                }
            }
        }
        if hit_here {
            let on_reloader = *op == Op::HotReload;
            let mut f = fin.lock().unwrap();
            f.fired = true;
            f.fired_on_reloader = on_reloader;
            detsim::count(if on_reloader { "reach.fault_during_reload" } else { "reach.fault_during_initial_load" });
            if src.reads() > reads0 + 1 {
                detsim::count("reach.fault_in_the_middle_of_a_multi_read_load");
            }
        }
    }
    // fault positions are enumerated over the operations above (not over the recovery phase below)
    {
        let mut f = fin.lock().unwrap();
        f.reads = src.reads();
        f.loader_calls = run_ctx(|c| c.loader_calls);
    }
    // repair (the plan was one-shot), notify every file, and converge
    let universe: Vec<(String, bool)> = (0..w.nleaves).map(|k| (format!("k{k}"), false)).chain((0..w.nests.len()).map(|n| (format!("n{n}"), true))).collect();
    for (id, nest) in &universe {
        if *nest {
            let _ = cache.load::<Nest>(id);
        } else {
            let _ = cache.load::<LAB>(id);
        }
    }
    for k in 0..w.nleaves {
        let _ = cache.load::<LDef>(&format!("k{k}"));
    }
    let _ = cache.load_rec_dir::<LA>("");
    for d in ["", "sub", "sub.deep"] {
        src.notify(dir_entry(d));
    }
    let files: Vec<String> = src.snapshot().files.keys().cloned().collect();
    for f in files {
        let (id, ext) = unfkey(&f);
        src.notify(file_entry(id, ext));
    }
    cache.hot_reload();
    detsim::check(recording_ptr() == 0, "C09/recording-not-restored", || "recorder not null after the final hot_reload".to_string());
    cache.hot_reload();
    let state: BTreeMap<String, String> = snapshot(&cache, &w).into_iter().map(|(k, v)| (k, v.0)).collect();
    if let Some(e) = &expect {
        detsim::check(state == e.state, "C09/no-recovery-after-repair", || format!("fault {pos:?}: after repair, notification of every file and hot_reload the cache holds {state:?}; the fault-free run ends with {:?}", e.state));
    }
    let mut f = fin.lock().unwrap();
    f.state = state;
    drop(f);
    drop(cache);
    if pos.is_none() {
        // once per sampled scenario, at the very end of the dry run: the dry run and the faulted runs must share their
        // schedule up to the fault (the number of reads of a history depends on when the reloader sees a notification)
        archives_over_faulty_reader(fnv(serde_json::to_string(&w).unwrap().as_bytes()) >> 8);
    }
    let live = ledger::live();
    detsim::check(live.is_empty(), "C09/leak-after-drop", || format!("still alive after the cache was dropped: {live:?}"));
}
