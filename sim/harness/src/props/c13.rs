//! C13 — every stored value is dropped exactly once; type erasure never lies.
use crate::common::*;
use crate::ledger::Tracked;
use crate::hist::*;
use crate::ledger;
use crate::props::c02::{gen_ops, is_edit, is_mut};
use crate::recipe::*;
use crate::with_ty;
use crate::world::*;
use assets_manager::UntypedHandle;
use detsim::SplitMix;
use serde::{Deserialize, Serialize};
use serde_json::Value;
use std::collections::BTreeSet;

#[derive(Clone, Debug, Serialize, Deserialize)]
pub struct Work {
    pub tree: Tree,
    pub front: FrontKind,
    pub variant: u8,
    pub ops: Vec<HOp>,
    /// threads racing to create the same entries before the sequential history starts: (is_insert, key index)
    #[serde(default)]
    pub race: Vec<Vec<(bool, usize)>>,
    /// events still queued when the cache is dropped
    pub queued_at_drop: usize,
}

pub struct C13;
impl Property for C13 {
    fn id(&self) -> &'static str {
        "C13"
    }
    fn info(&self) -> PropInfo {
        PropInfo {
            level: "exploration",
            rule: "a run is non-trivial when its history dropped stored values in at least two different ways among: replaced by a reload, remove, take, clear, cache dropped, lost/failed load discarded",
            real: &["src/entry.rs (EntryStorage, swap_any, TypeId checks, into_inner)", "src/cache.rs / src/local_cache.rs (take, remove, clear, drop)", "src/anycache.rs (load_entry, reload_untyped, get_or_insert)"],
            stub: &["Source (in-memory), notifications sent by the harness", "locks / channels / scheduler (detsim)"],
            assumptions: &["the drop ledger detects double drops, early drops (a value dropped while the model says it is stored or under a guard) and leaks without relying on undefined behaviour manifesting; insertion races with ledger are C01's scenario; allocation-level accounting (layouts, raw leaks) of the lock-free buffer type is C16's"],
            runs: (36_000, 1_200_000),
        }
    }
    fn generate(&self, g: &mut SplitMix, k: &mut SplitMix, _tier: Tier) -> (Knobs, Value) {
        let knobs = Knobs::draw(k);
        let u = universe();
        let tree = gen_tree(g, &u, true);
        let n = 2 + g.below(30) as usize;
        let mut ops = gen_ops(g, &u, n, true);
        // sprinkle reload rounds and downcast probes
        let mut ver = 1000u64;
        for _ in 0..g.below(6) {
            ver += 1;
            let at = g.below(ops.len() as u64 + 1) as usize;
            let id = g.pick(&u.ids).clone();
            let ext = g.pick(&["a", "b", "rc"]).to_string();
            let mut ins = vec![HOp::Put(id.clone(), ext.clone(), if ext == "rc" { "[]".into() } else { format!("reload#{ver}") }), HOp::Notify(vec![(id, ext)]), HOp::HotReload];
            if g.chance(1, 3) {
                let ty = gen_ty(g);
                ins.push(HOp::Downcast(ty, gen_id(g, &u, ty)));
            }
            for (j, o) in ins.into_iter().enumerate() {
                ops.insert((at + j).min(ops.len()), o);
            }
        }
        let front = *g.pick(&[FrontKind::Hot, FrontKind::Hot, FrontKind::Cold, FrontKind::Local]);
        (knobs, serde_json::to_value(Work { tree, front, variant: g.below(4) as u8, ops, race: if g.chance(1, 2) { (0..2 + g.below(2)).map(|_| (0..1 + g.below(3)).map(|_| (g.chance(1, 3), g.below(2) as usize)).collect()).collect() } else { vec![] }, queued_at_drop: g.below(3) as usize }).unwrap())
    }
    fn execute(&self, case: &Case) -> Outcome {
        let w: Work = serde_json::from_value(case.work.clone()).unwrap();
        let shape = fnv(case.work.to_string().as_bytes());
        let cfg = case.knobs.to_config(case.seed, case.tape.clone());
        reset_run();
        let r = detsim::run(cfg, move || scenario(w));
        let ways = ["reach.dropped_by_reload", "reach.dropped_by_remove", "reach.handed_over_by_take", "reach.dropped_by_clear", "reach.dropped_with_cache", "reach.loser_or_failed_load_discarded"].iter().filter(|k| r.counters.get(**k).copied().unwrap_or(0) > 0).count();
        outcome_from(r, ways >= 2, shape, |f| f.rule())
    }
    fn shrink(&self, work: &Value) -> Vec<Value> {
        let w: Work = serde_json::from_value(work.clone()).unwrap();
        let mut out = vec![];
        if w.ops.len() > 2 {
            let mut x = w.clone();
            x.ops.truncate(w.ops.len() / 2);
            out.push(x);
        }
        for i in (0..w.ops.len()).rev() {
            let mut x = w.clone();
            x.ops.remove(i);
            out.push(x);
        }
        for k in w.tree.files.keys() {
            let mut x = w.clone();
            x.tree.files.remove(k);
            out.push(x);
        }
        out.into_iter().map(|x| serde_json::to_value(x).unwrap()).collect()
    }
}

/// An untyped handle can be viewed only as the type it was created with.
fn erasure_checks(h: &UntypedHandle, stored: Ty, id: &str) {
    let mut right = 0;
    for other in ALL_TYS {
        let (is, some, guard_ok) = with_ty!(other, U, (h.is::<U>(), h.downcast_ref::<U>().is_some(), h.read().downcast::<U>().is_ok()));
        if other == stored {
            right += 1;
            detsim::check(is && some && guard_ok, "C13/own-type-rejected", || format!("{stored:?} {id}: is/downcast_ref/downcast to its own type gave {is}/{some}/{guard_ok}"));
        } else {
            detsim::check(!is && !some && !guard_ok, "C13/wrong-type-accepted", || format!("{stored:?} {id} viewed as {other:?}: is={is} downcast_ref.is_some()={some} guard downcast ok={guard_ok}"));
        }
    }
    detsim::check(right == 1, "C13/harness", || "type list".into());
    detsim::check(h.id().as_str() == id, "C13/untyped-id", || format!("untyped handle of {id} says {}", h.id()));
    detsim::count("reach.type_erasure_probe");
}

/// A type nothing is ever stored as.
pub struct WrongView(#[allow(dead_code)] u8);

/// A seed type without a destructor, loadable as a Compound.
pub struct PlainSeed(pub u64);
impl assets_manager::Compound for PlainSeed {
    fn load(_: assets_manager::AnyCache, _: &assets_manager::SharedString) -> Result<Self, assets_manager::BoxedError> {
        Ok(PlainSeed(7))
    }
}

/// Cached `OnceInitCell`s hold two values over their life (the loaded seed, then the computed value): every one of
/// them is dropped exactly once, through failing initialisers, reloads, removal and the drop of the cache.
fn cached_cells(hist: u64) {
    use assets_manager::{AssetCache, OnceInitCell};
    let mut tree = Tree::default();
    tree.put("c", "a", b"seed-1");
    let src = SimSource::new(tree, HotMode::Custom, 3);
    let mut cache = AssetCache::with_source(src.clone());
    let live = || ledger::live().len();
    let base = live();
    let expect = |n: usize, what: &str| {
        let l = ledger::live();
        detsim::check(l.len() == base + n, "C13/live-values-differ-from-stored-values", || format!("cached OnceInitCell, {what}: {} tracked values alive, {} expected: {:?}", l.len() - base.min(l.len()), n, l));
    };
    {
        let cell = cache.load::<OnceInitCell<LA, Tracked>>("c").expect("cell");
        expect(1, "after the load (the seed)");
        if hist % 2 == 0 {
            let failed = cell.read().get_or_try_init(|_| Err::<Tracked, u8>(1)).is_err();
            detsim::check(failed, "C13/harness", || "failing initialiser returned Ok".to_string());
            expect(1, "after a failing initialiser (the seed is kept)");
        }
        if hist % 3 == 0 {
            let r = std::panic::catch_unwind(std::panic::AssertUnwindSafe(|| {
                cell.read().get_or_init(|_| std::panic::panic_any(detsim::InjectedPanic("initialiser".into())));
            }));
            detsim::check(r.is_err(), "C13/harness", || "panicking initialiser returned".to_string());
            expect(1, "after a panicking initialiser (the seed is kept)");
        }
        if hist % 5 != 0 {
            let _ = cell.read().get_or_init(|_| Tracked::new("cell value"));
            expect(1, "after a successful initialiser (the value replaced the seed)");
        }
        // a seed without destructor, a value with one
        let plain = cache.load::<OnceInitCell<PlainSeed, Tracked>>("p").expect("plain cell");
        expect(1, "after loading a cell whose seed has no destructor");
        if hist % 7 != 0 {
            let _ = plain.read().get_or_init(|s| Tracked::new(format!("plain value {}", s.0)));
            expect(2, "after initialising the cell whose seed has no destructor");
        }
    }
    if hist % 4 < 2 {
        // a reload replaces the whole cell: the old content is dropped, a new seed arrives
        src.tree(|t| t.put("c", "a", b"seed-2"));
        src.notify(file_entry("c", "a"));
        cache.hot_reload();
        expect(if hist % 7 != 0 { 2 } else { 1 }, "after a reload of the cell's file");
    }
    match hist % 3 {
        0 => {
            cache.remove::<assets_manager::OnceInitCell<LA, Tracked>>("c");
            expect(if hist % 7 != 0 { 1 } else { 0 }, "after removing the cell");
            cache.remove::<assets_manager::OnceInitCell<PlainSeed, Tracked>>("p");
            expect(0, "after removing both cells");
        }
        1 => {
            cache.clear();
            expect(0, "after clear");
        }
        _ => {}
    }
    drop(cache);
    expect(0, "after the cache was dropped");
    detsim::count("reach.cached_once_init_cells");
}

fn scenario(w: Work) {
    cached_cells(fnv(serde_json::to_string(&w.ops).unwrap().as_bytes()) >> 8);
    let u = universe();
    let mut all_ids = u.ids.clone();
    all_ids.extend(u.dirs.iter().cloned());
    let mut world = World::new(w.front, w.tree.clone(), w.variant);
    // insertion races: losers are dropped at once, the winner is never dropped while a handle can reach it
    if let (Front::Shared(cache), false) = (&world.front, w.race.is_empty()) {
        let winners: std::sync::Arc<std::sync::Mutex<Vec<(usize, u64)>>> = Default::default();
        detsim::thread::scope(|s| {
            for (t, ops) in w.race.iter().enumerate() {
                let winners = winners.clone();
                s.spawn(&format!("racer{t}"), move || {
                    let mut seen = vec![];
                    for (ins, k) in ops {
                        let id = format!("x{k}");
                        let h = if *ins { Some(cache.get_or_insert::<LA>(&id, <LA as Make>::make(900 + t as u64))) } else { cache.load::<LA>(&id).ok() };
                        if let Some(h) = h {
                            let tid = h.read().0.t.id;
                            ledger::pin(tid);
                            seen.push((h, tid));
                            winners.lock().unwrap().push((*k, tid));
                        }
                    }
                    detsim::thread::yield_now();
                    for (h, tid) in &seen {
                        let now = h.read().0.t.id;
                        detsim::check(now == *tid && ledger::is_live(now), "C13/value-dropped-while-handle-alive", || format!("a handle of x? first read value #{tid}, now #{now} (live: {})", ledger::is_live(now)));
                    }
                });
            }
        });
        let wn = winners.lock().unwrap();
        for k in 0..2 {
            let ids: BTreeSet<u64> = wn.iter().filter(|x| x.0 == k).map(|x| x.1).collect();
            detsim::check(ids.len() <= 1, "C13/racers-hold-different-values", || format!("racing creators of x{k} ended up with different stored values {ids:?}"));
        }
        for (_, tid) in wn.iter() {
            while ledger::item(*tid).map(|i| i.pinned > 0).unwrap_or(false) {
                ledger::unpin(*tid);
            }
        }
        if wn.len() >= 2 {
            detsim::count("reach.insertion_race");
        }
        // the model learns what the race stored
        drop(wn);
        world.follow_reloads(&all_ids);
        for k in 0..2 {
            let id = format!("x{k}");
            if let Some((s, _, _)) = any_peek(world.front.any(), Ty::LA, &id) {
                // a get_or_insert that won the race stored a value that is never reloaded
                let hot = world.model.hot && !s.starts_with("L(ins|");
                world.model.cache.insert((Ty::LA, id.clone()), crate::model::MEntry { show: s, reload: 0, dynamic: hot });
                if hot && world.model.tree.files.contains_key(&fkey(&id, "a")) {
                    // a load registered the key with the reloader
                    world.model.register(&(Ty::LA, id.clone()), [crate::model::Dep::File(id.clone(), "a".into())].into_iter().collect());
                }
            }
        }
        let live: BTreeSet<u64> = ledger::live().into_iter().map(|x| x.0).collect();
        let reach = world.reachable(&all_ids);
        detsim::check(live == reach, "C13/live-values-differ-from-stored-values", || format!("after the insertion races: alive {live:?}, stored {reach:?} (losers must be dropped at once)"));
    }
    let mut pinned: BTreeSet<u64> = BTreeSet::new();
    let repin = |world: &World, pinned: &mut BTreeSet<u64>| {
        for p in pinned.iter() {
            ledger::unpin(*p);
        }
        *pinned = world.reachable(&all_ids);
        for p in pinned.iter() {
            ledger::pin(*p);
        }
    };
    for (i, op) in w.ops.iter().enumerate() {
        if is_edit(op) {
            world.edit(op);
            continue;
        }
        match op {
            HOp::Notify(es) => {
                for (id, ext) in es {
                    world.src.notify(file_entry(id, ext));
                }
                continue;
            }
            HOp::Downcast(ty, id) => {
                let h: Option<&UntypedHandle> = with_ty!(*ty, T, world.front.any().get_cached::<T>(id).map(|h| h.as_untyped()));
                if let Some(h) = h {
                    erasure_checks(h, *ty, id);
                }
                continue;
            }
            _ => {}
        }
        // values this operation may legitimately drop are released from the pin set first
        let created0 = ledger::created();
        let live0: BTreeSet<u64> = ledger::live().into_iter().map(|x| x.0).collect();
        match op {
            HOp::Remove(..) | HOp::Take(..) | HOp::RemS(..) | HOp::TakeS(..) | HOp::Clear | HOp::HotReload => {
                for p in pinned.iter() {
                    ledger::unpin(*p);
                }
                pinned.clear();
            }
            _ => {}
        }
        let reach0 = world.reachable(&all_ids);
        if *op == HOp::HotReload {
            // a reader keeps a guard on one reloadable entry while the pass runs: its value must outlive the guard
            let target = world.model.cache.iter().filter(|(k, e)| e.dynamic && k.0.kind() != Kind::Dir && k.0.kind() != Kind::RDir).map(|(k, _)| k.clone()).nth(i % 3);
            if let (Some((ty, id)), Front::Shared(cache)) = (target, &world.front) {
                detsim::thread::scope(|s| {
                    s.spawn("guard-holder", move || {
                        with_ty!(ty, T, {
                            if let Some(h) = cache.get_cached::<T>(&id) {
                                // the guard comes straight from read(), or is the one a wrong-type downcast / a failed
                                // try_map hands back (it must still pin the value)
                                let g = match i % 3 {
                                    0 => h.read(),
                                    1 => match h.as_untyped().read().downcast::<WrongView>() {
                                        Err(g) => g.downcast::<T>().ok().expect("downcast to the stored type after a failed one"),
                                        Ok(_) => detsim::fail("C13/wrong-type-view", format!("{ty:?} {id}: an untyped guard was downcast to an unrelated type")),
                                    },
                                    _ => match assets_manager::AssetReadGuard::try_map(h.read(), |_| None::<&u8>) {
                                        Err(g) => g,
                                        Ok(_) => unreachable!(),
                                    },
                                };
                                let tids = g.tids();
                                tids.iter().for_each(|t| ledger::pin(*t));
                                for _ in 0..3 {
                                    detsim::thread::yield_now();
                                    detsim::check(g.tids() == tids && tids.iter().all(|t| ledger::is_live(*t)), "C13/value-dropped-under-guard", || format!("{ty:?} {id}: the value behind a live read guard changed or was dropped"));
                                }
                                tids.iter().for_each(|t| ledger::unpin(*t));
                                drop(g);
                                detsim::count("reach.guard_held_during_pass");
                            }
                        })
                    });
                    cache.hot_reload();
                });
            } else {
                world.real(op);
            }
            world.follow_reloads(&all_ids);
        } else {
            let exp = world.expected(op);
            let got = if is_mut(op) { world.real_mut(op) } else { world.real(op) };
            detsim::check(got == exp, "C13/result-differs-from-map-model", || format!("op {i} {op:?} on {:?}: returned {got:?}, the model says {exp:?}", w.front));
        }
        // ledger: exactly the values reachable from the cache are alive (take / load_owned hand their value to the caller, who dropped it)
        let reach1 = world.reachable(&all_ids);
        let live1: BTreeSet<u64> = ledger::live().into_iter().map(|x| x.0).collect();
        detsim::check(live1 == reach1, "C13/live-values-differ-from-stored-values", || {
            let leaked: Vec<_> = live1.difference(&reach1).map(|x| (*x, ledger::item(*x).map(|i| i.label).unwrap_or_default())).collect();
            let dead: Vec<_> = reach1.difference(&live1).map(|x| (*x, ledger::item(*x).map(|i| i.label).unwrap_or_default())).collect();
            format!("after op {i} {op:?} on {:?}: alive but not stored (leak) {leaked:?}; stored but already dropped {dead:?}", w.front)
        });
        let gone = reach0.difference(&reach1).count();
        let made = ledger::created() - created0;
        let kept = reach1.difference(&reach0).count() as u64;
        match op {
            HOp::HotReload if gone > 0 => detsim::count("reach.dropped_by_reload"),
            HOp::Remove(..) | HOp::RemS(..) if gone > 0 => detsim::count("reach.dropped_by_remove"),
            HOp::Take(..) | HOp::TakeS(..) if gone > 0 => detsim::count("reach.handed_over_by_take"),
            HOp::Clear if gone > 0 => detsim::count("reach.dropped_by_clear"),
            _ if made > kept => detsim::count("reach.loser_or_failed_load_discarded"),
            _ => {}
        }
        let _ = live0;
        repin(&world, &mut pinned);
    }
    // drop the cache (sometimes while events are queued): everything goes away exactly once
    for j in 0..w.queued_at_drop {
        world.src.notify(file_entry(&u.ids[j % u.ids.len()], "a"));
    }
    for p in pinned.iter() {
        ledger::unpin(*p);
    }
    let had = !world.reachable(&all_ids).is_empty();
    let World { front, src, .. } = world;
    drop(front);
    if had {
        detsim::count("reach.dropped_with_cache");
    }
    detsim::quiesce();
    drop(src);
    let live = ledger::live();
    detsim::check(live.is_empty(), "C13/leak-after-cache-drop", || format!("values still alive after the cache was dropped: {live:?}"));
}
