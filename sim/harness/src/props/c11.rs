//! C11 — directory assets list exactly the matching ids of a directory / subtree.
use crate::common::*;
use crate::world::*;
use assets_manager::source::Source as _;
use assets_manager::{AnyCache, AssetCache, Directory, RecursiveDirectory};
use detsim::SplitMix;
use serde::{Deserialize, Serialize};
use serde_json::Value;
use std::collections::BTreeSet;
use std::sync::Arc;

#[derive(Clone, Copy, Debug, Serialize, Deserialize, PartialEq, Eq)]
pub enum DT {
    LA,
    LAB,
    LBC,
    LE,
    ArcLA,
    /// a type with its own DirLoadable implementation (extension "b" only, ids reported twice and unsorted,
    /// sub-directories whose name starts with 'c' are not descended into), and the same behind an Arc
    Picky,
    ArcPicky,
}

/// A compound with a hand-written `DirLoadable`.
pub struct Picky(pub String);
impl assets_manager::Compound for Picky {
    fn load(_cache: AnyCache, id: &assets_manager::SharedString) -> Result<Self, assets_manager::BoxedError> {
        Ok(Picky(id.to_string()))
    }
}
fn picky_skips(dir_id: &str) -> bool {
    dir_id.rsplit('.').next().unwrap_or("").starts_with('c')
}
impl assets_manager::asset::DirLoadable for Picky {
    fn select_ids(cache: AnyCache, id: &assets_manager::SharedString) -> std::io::Result<Vec<assets_manager::SharedString>> {
        let mut ids = Vec::new();
        cache.raw_source().read_dir(id, &mut |e| {
            if let assets_manager::source::DirEntry::File(i, "b") = e {
                ids.push(i.into());
                ids.push(i.into());
            }
        })?;
        ids.reverse();
        Ok(ids)
    }
    fn sub_directories(cache: AnyCache, id: &assets_manager::SharedString, mut f: impl FnMut(&str)) -> std::io::Result<()> {
        cache.raw_source().read_dir(id, &mut |e| {
            if let assets_manager::source::DirEntry::Directory(d) = e {
                if !picky_skips(d) {
                    f(d);
                }
            }
        })
    }
}
impl DT {
    fn exts(self) -> &'static [&'static str] {
        match self {
            DT::LA | DT::ArcLA => &["a"],
            DT::LAB => &["a", "b"],
            DT::LBC => &["b", "c"],
            DT::LE => &[""],
            DT::Picky | DT::ArcPicky => &["b"],
        }
    }
    fn skips(self) -> fn(&str) -> bool {
        match self {
            DT::Picky | DT::ArcPicky => picky_skips,
            _ => |_| false,
        }
    }
}
#[derive(Clone, Debug, Serialize, Deserialize)]
pub struct Query {
    pub ty: DT,
    pub dir: String,
    pub recursive: bool,
}
#[derive(Clone, Debug, Serialize, Deserialize)]
pub struct Work {
    pub tree: Tree,
    pub hot: bool,
    /// (type, id) loaded before the directories are listed
    pub preload: Vec<(DT, String)>,
    pub queries: Vec<Query>,
    /// real-source variant: the tree is written to a scratch directory, archived and embedded, and the queries run on a
    /// cache over each of FileSystem, Tar, Zip and Embedded (no unreadable directories in this variant)
    #[serde(default)]
    pub real: Option<super::c04::ArcOpts>,
}

pub fn gen_names(g: &mut SplitMix) -> Vec<String> {
    let pool = ["a", "b", "c0", "x y", "é", "Ω1", "long_name_with_underscores", "Z", "0", "-"];
    let n = 1 + g.below(4) as usize;
    let mut v: Vec<String> = (0..n).map(|_| g.pick(&pool).to_string()).collect();
    v.sort();
    v.dedup();
    v
}
/// A random tree: directories up to depth 3, files with extensions from {a,b,c,"",txt}, same stem with several
/// extensions, a file and a directory sharing an id.
pub fn gen_dir_tree(g: &mut SplitMix) -> Tree {
    let mut t = Tree::default();
    t.order_seed = if g.chance(1, 5) { 0 } else { g.next() | 1 };
    fn fill(g: &mut SplitMix, t: &mut Tree, dir: &str, depth: u32) {
        let join = |d: &str, n: &str| if d.is_empty() { n.to_string() } else { format!("{d}.{n}") };
        for name in gen_names(g) {
            let id = join(dir, &name);
            let exts = ["a", "b", "c", "", "txt"];
            for e in exts {
                if g.chance(1, 3) {
                    t.put(&id, e, format!("{id}.{e}").as_bytes());
                }
            }
            if depth < 3 && g.chance(1, 3) {
                // a directory, possibly sharing its id with files above
                t.dirs.insert(id.clone());
                if !dir.is_empty() {
                    t.dirs.insert(dir.to_string());
                }
                fill(g, t, &id, depth + 1);
            }
        }
    }
    fill(g, &mut t, "", 0);
    let dirs: Vec<String> = t.dirs.iter().cloned().collect();
    for d in dirs {
        if g.chance(1, 6) {
            t.bad_dirs.insert(d, *g.pick(&IO_KINDS));
        }
    }
    t
}

/// Independent statement of the property on the tree.
pub fn expect_dir(t: &Tree, exts: &[&str], d: &str) -> Option<Vec<String>> {
    if !t.has_dir(d) || t.bad_dirs.contains_key(d) {
        return None;
    }
    let set: BTreeSet<String> = t.files.keys().map(|k| unfkey(k)).filter(|(id, e)| parent_id(id) == Some(d) && exts.contains(e)).map(|(id, _)| id.to_string()).collect();
    Some(set.into_iter().collect())
}
pub fn expect_rec(t: &Tree, exts: &[&str], d: &str, skips: fn(&str) -> bool) -> Option<BTreeSet<String>> {
    let mut set: BTreeSet<String> = expect_dir(t, exts, d)?.into_iter().collect();
    for c in t.dirs.iter().filter(|c| parent_id(c) == Some(d) && !skips(c)) {
        if let Some(s) = expect_rec(t, exts, c, skips) {
            set.extend(s);
        }
    }
    Some(set)
}

macro_rules! with_dt {
    ($dt:expr, $T:ident, $body:expr) => {
        match $dt {
            DT::LA => { type $T = LA; $body }
            DT::LAB => { type $T = LAB; $body }
            DT::LBC => { type $T = LBC; $body }
            DT::LE => { type $T = LE; $body }
            DT::ArcLA => { type $T = Arc<LA>; $body }
            DT::Picky => { type $T = Picky; $body }
            DT::ArcPicky => { type $T = Arc<Picky>; $body }
        }
    };
}

pub struct C11;
impl Property for C11 {
    fn id(&self) -> &'static str {
        "C11"
    }
    fn info(&self) -> PropInfo {
        PropInfo {
            level: "exploration",
            rule: "a run is non-trivial when at least one listed directory contained a stem with >= 2 matching extensions, or a recursive listing crossed >= 2 levels, or skipped an unreadable sub-directory that had readable siblings",
            real: &["src/dirs.rs (select_ids, Directory, RecursiveDirectory, iter, iter_cached)", "src/anycache.rs (raw_source, nested loads)", "in the real-source variant: src/source/{filesystem,tar,zip,embedded}.rs, crates tar and zip, macros/src/embedded.rs, a scratch directory"],
            stub: &["Source: in-memory generated tree; read_dir returns entries in an arbitrary fixed order; chosen sub-directories fail to list (fault set)"],
            assumptions: &["single simulated thread: the simulated part is the faultable read_dir seam, the rest is generated input (stated in DESIGN §7 C11)", "one run in eight lists the same generated tree through caches over the four real sources (FileSystem, Tar, Zip, Embedded built as in C04)"],
            runs: (200_000, 6_000_000),
        }
    }
    fn generate(&self, g: &mut SplitMix, k: &mut SplitMix, _tier: Tier) -> (Knobs, Value) {
        let knobs = Knobs::draw(k);
        let mut tree = gen_dir_tree(g);
        let real = if g.chance(1, 8) {
            // what a file system can hold: nothing unreadable by construction, and no file without extension that shares
            // its path with a directory
            tree.bad_dirs.clear();
            let clash: Vec<String> = tree.files.keys().filter(|k| unfkey(k).1.is_empty() && tree.dirs.contains(unfkey(k).0)).cloned().collect();
            for k in clash {
                tree.files.remove(&k);
            }
            Some(super::c04::ArcOpts { order: if g.chance(1, 3) { 0 } else { g.next() | 1 }, dir_members: g.chance(2, 3), dot_prefix: g.chance(1, 4), gnu: g.chance(2, 3), deflate: g.chance(1, 2), extra: if g.chance(1, 3) { 1 + g.below(3) as u8 } else { 0 } })
        } else {
            None
        };
        let tys = [DT::LA, DT::LAB, DT::LBC, DT::LE, DT::ArcLA, DT::Picky, DT::ArcPicky];
        let mut dirs: Vec<String> = tree.dirs.iter().cloned().collect();
        dirs.push(String::new());
        dirs.push("missing".into());
        let file_ids: Vec<String> = tree.files.keys().map(|k| unfkey(k).0.to_string()).collect();
        let preload = (0..g.below(5)).filter_map(|_| if file_ids.is_empty() { None } else { Some((*g.pick(&tys), g.pick(&file_ids).clone())) }).collect();
        let queries = (0..1 + g.below(5)).map(|_| Query { ty: *g.pick(&tys), dir: g.pick(&dirs).clone(), recursive: g.chance(1, 2) }).collect();
        (knobs, serde_json::to_value(Work { tree, hot: g.chance(1, 2), preload, queries, real }).unwrap())
    }
    fn execute(&self, case: &Case) -> Outcome {
        let w: Work = serde_json::from_value(case.work.clone()).unwrap();
        let shape = fnv(case.work.to_string().as_bytes());
        let cfg = case.knobs.to_config(case.seed, case.tape.clone());
        reset_run();
        let r = detsim::run(cfg, move || scenario(w));
        let c = |k: &str| r.counters.get(k).copied().unwrap_or(0) > 0;
        let nontrivial = c("reach.stem_with_several_extensions") || c("reach.recursion_two_levels") || c("reach.unreadable_subdir_skipped");
        outcome_from(r, nontrivial, shape, |f| f.rule())
    }
    fn shrink(&self, work: &Value) -> Vec<Value> {
        let w: Work = serde_json::from_value(work.clone()).unwrap();
        let mut out = vec![];
        for i in 0..w.queries.len() {
            if w.queries.len() > 1 {
                let mut x = w.clone();
                x.queries.remove(i);
                out.push(x);
            }
        }
        if !w.preload.is_empty() {
            let mut x = w.clone();
            x.preload.clear();
            out.push(x);
        }
        if w.real.is_some() && w.tree.bad_dirs.is_empty() {
            // the same tree on the in-memory source (only when that keeps the violation)
            let mut x = w.clone();
            x.real = None;
            out.push(x);
        }
        for k in w.tree.files.keys() {
            let mut x = w.clone();
            x.tree.files.remove(k);
            out.push(x);
        }
        for k in w.tree.bad_dirs.keys() {
            let mut x = w.clone();
            x.tree.bad_dirs.remove(k);
            out.push(x);
        }
        out.into_iter().map(|x| serde_json::to_value(x).unwrap()).collect()
    }
}

/// The same queries on caches over the four real sources built from one directory.
fn real_sources(w: &Work, opts: &super::c04::ArcOpts) {
    use super::c04::{build_embedded, build_tar, build_zip, scratch, write_dir_links, FsTree, RmOnDrop};
    use assets_manager::source::{FileSystem, Tar, Zip};
    let to_fs = |t: &Tree| {
        let mut x = FsTree::default();
        for (k, v) in &t.files {
            if let FileSt::Data(d) = v {
                let (id, ext) = unfkey(k);
                x.add_file(id, ext, materialize(d));
            }
        }
        x.dirs.extend(t.dirs.iter().cloned());
        x
    };
    let full = to_fs(&w.tree);
    // archives without directory members know only the directories that hold something
    let mut t_arch = w.tree.clone();
    if !opts.dir_members {
        t_arch.dirs.clear();
        let keys: Vec<String> = t_arch.files.keys().cloned().collect();
        for k in keys {
            let mut p = parent_id(unfkey(&k).0);
            while let Some(d) = p {
                if !d.is_empty() {
                    t_arch.dirs.insert(d.to_string());
                }
                p = parent_id(d);
            }
        }
    }
    let arch = to_fs(&t_arch);
    let dir = scratch();
    let _rm = RmOnDrop(dir.clone());
    let root = dir.join("root");
    write_dir_links(&full, &root, if opts.extra & 2 != 0 { opts.order | 1 } else { 0 });
    std::fs::write(dir.join("t.tar"), build_tar(&arch, opts)).unwrap();
    std::fs::write(dir.join("t.zip"), build_zip(&arch, opts)).unwrap();
    fn run_on<S: assets_manager::source::Source + Send + Sync + 'static>(name: &'static str, src: S, t: &Tree, w: &Work) {
        let cache = AssetCache::without_hot_reloading(src);
        let any = cache.as_any_cache();
        SRC_NAME.with(|n| n.set(name));
        let mut cached: BTreeSet<(String, String)> = BTreeSet::new();
        for (dt, id) in &w.preload {
            if with_dt!(*dt, T, any.load::<T>(id).is_ok()) {
                cached.insert((format!("{dt:?}"), id.clone()));
            }
        }
        for q in &w.queries {
            check_query(any, t, q, &mut cached);
        }
        detsim::count("reach.real_source_cache");
        SRC_NAME.with(|n| n.set("sim"));
    }
    run_on("filesystem", FileSystem::new(&root).expect("FileSystem::new"), &w.tree, w);
    run_on("embedded", build_embedded(&root), &w.tree, w);
    run_on("tar", Tar::open(dir.join("t.tar")).expect("Tar::open"), &t_arch, w);
    run_on("zip", Zip::open(dir.join("t.zip")).expect("Zip::open"), &t_arch, w);
}
thread_local! {
    static SRC_NAME: std::cell::Cell<&'static str> = const { std::cell::Cell::new("sim") };
}

fn scenario(w: Work) {
    if let Some(opts) = w.real.clone() {
        real_sources(&w, &opts);
        return;
    }
    let src = SimSource::new(w.tree.clone(), HotMode::Custom, 3);
    let cache = if w.hot { AssetCache::with_source(src.clone()) } else { AssetCache::without_hot_reloading(src.clone()) };
    let any = cache.as_any_cache();
    let mut cached: BTreeSet<(String, String)> = BTreeSet::new(); // (type name, id)
    for (dt, id) in &w.preload {
        let ok = with_dt!(*dt, T, any.load::<T>(id).is_ok());
        if ok {
            cached.insert((format!("{dt:?}"), id.clone()));
        }
    }
    for q in &w.queries {
        check_query(any, &w.tree, q, &mut cached);
    }
}

fn check_query(any: AnyCache, t: &Tree, q: &Query, cached: &mut BTreeSet<(String, String)>) {
    let exts = q.ty.exts();
    let d = &q.dir;
    let tyname = format!("{:?}", q.ty);
    if !q.recursive {
        let exp = expect_dir(t, exts, d);
        let got: Option<Vec<String>> = with_dt!(q.ty, T, any.load_dir::<T>(d).ok().map(|h| h.read().ids().map(|s| s.to_string()).collect()));
        detsim::check(got == exp, "C11/directory-ids", || format!("[{}] load_dir::<{tyname}>({d:?}) = {got:?}, the tree says {exp:?} (sorted, no duplicates; None = error)", SRC_NAME.with(|n| n.get())));
        if let Some(ids) = &exp {
            let stems_multi = t.files.keys().map(|k| unfkey(k)).filter(|(id, e)| parent_id(id) == Some(d.as_str()) && exts.contains(e)).count() > ids.len();
            if stems_multi {
                detsim::count("reach.stem_with_several_extensions");
            }
            // iter_cached yields exactly the ids already cached, iter loads exactly the listed ids
            let before: BTreeSet<String> = ids.iter().filter(|i| cached.contains(&(tyname.clone(), (*i).clone()))).cloned().collect();
            let (got_cached, got_iter): (BTreeSet<String>, Vec<Result<String, String>>) = with_dt!(q.ty, T, {
                let h = any.load_dir::<T>(d).unwrap();
                let g = h.read();
                let c: BTreeSet<String> = g.iter_cached(any).map(|h| h.id().to_string()).collect();
                let i: Vec<Result<String, String>> = g.iter(any).map(|r| r.map(|h| h.id().to_string()).map_err(|e| e.id().to_string())).collect();
                (c, i)
            });
            detsim::check(got_cached == before, "C11/iter_cached", || format!("Directory<{tyname}>({d:?}).iter_cached yields {got_cached:?}, already cached were {before:?}"));
            let touched: Vec<String> = got_iter.iter().map(|r| match r { Ok(i) | Err(i) => i.clone() }).collect();
            detsim::check(&touched == ids, "C11/iter", || format!("Directory<{tyname}>({d:?}).iter loads {touched:?}, listed ids are {ids:?}"));
            for r in got_iter.into_iter().flatten() {
                cached.insert((tyname.clone(), r));
            }
        }
    } else {
        let exp = expect_rec(t, exts, d, q.ty.skips());
        let got: Option<Vec<String>> = with_dt!(q.ty, T, any.load_rec_dir::<T>(d).ok().map(|h| h.read().ids().map(|s| s.to_string()).collect()));
        let got_set: Option<BTreeSet<String>> = got.as_ref().map(|v| v.iter().cloned().collect());
        detsim::check(got_set == exp, "C11/recursive-directory-ids", || format!("[{}] load_rec_dir::<{tyname}>({d:?}) = {got:?}, the tree says {exp:?} (as a set; None = error)", SRC_NAME.with(|n| n.get())));
        if let (Some(v), Some(s)) = (&got, &got_set) {
            detsim::check(v.len() == s.len(), "C11/recursive-directory-duplicates", || format!("load_rec_dir::<{tyname}>({d:?}) lists an id twice: {v:?}"));
            let depth = |id: &str| id.matches('.').count();
            if s.iter().any(|i| depth(i) >= depth(d) + if d.is_empty() { 2 } else { 3 }) {
                detsim::count("reach.recursion_two_levels");
            }
            let kids: Vec<&String> = t.dirs.iter().filter(|c| parent_id(c) == Some(d.as_str())).collect();
            if kids.iter().any(|c| (q.ty.skips())(c)) && matches!(q.ty, DT::ArcPicky) {
                detsim::count("reach.custom_sub_directories_behind_arc");
            }
            if kids.iter().any(|c| t.bad_dirs.contains_key(*c)) && kids.iter().any(|c| !t.bad_dirs.contains_key(*c)) {
                detsim::count("reach.unreadable_subdir_skipped");
            }
            let before: BTreeSet<String> = s.iter().filter(|i| cached.contains(&(tyname.clone(), (*i).clone()))).cloned().collect();
            let got_cached: BTreeSet<String> = with_dt!(q.ty, T, any.load_rec_dir::<T>(d).unwrap().read().iter_cached(any).map(|h| h.id().to_string()).collect());
            detsim::check(got_cached == before, "C11/iter_cached", || format!("RecursiveDirectory<{tyname}>({d:?}).iter_cached yields {got_cached:?}, already cached were {before:?}"));
        }
    }
    let _: Option<(Directory<LA>, RecursiveDirectory<LA>)> = None;
}
