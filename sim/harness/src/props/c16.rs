//! C16 — SharedBytes / SharedString are immutable shared buffers.
use crate::common::*;
use crate::ledger;
use assets_manager::{SharedBytes, SharedString};
use detsim::SplitMix;
use serde::{Deserialize, Serialize};
use serde_json::Value;
use std::borrow::Cow;
use std::hash::{Hash, Hasher};

#[derive(Clone, Debug, Serialize, Deserialize, PartialEq)]
pub enum Ctor {
    Slice,
    VecExact,
    VecExcess(usize),
    VecNew,
    BoxSlice,
    CowBorrowed,
    CowOwned,
    Iter,
    StrRef,
    StringOwned,
    StringExcess(usize),
    CowStr,
    FromUtf8,
}
#[derive(Clone, Debug, Serialize, Deserialize, PartialEq)]
pub enum Op {
    Clone,
    Drop,
    Read,
    CmpHash,
    Send(usize),
}
#[derive(Clone, Debug, Serialize, Deserialize)]
pub struct Work {
    pub ctor: Ctor,
    pub len: usize,
    pub fill: u64,
    pub threads: Vec<Vec<Op>>,
    /// the creating thread drops its handle while the other threads are still working (the last drops then race on other threads)
    #[serde(default)]
    pub early_drop: bool,
    /// byte strings for the UTF-8 / ordering clauses (generated data, not simulated)
    pub strings: Vec<Vec<u8>>,
}

fn content(len: usize, fill: u64, text: bool) -> Vec<u8> {
    let mut r = SplitMix::new(fill);
    (0..len).map(|_| if text { b'a' + (r.below(26) as u8) } else { r.below(256) as u8 }).collect()
}
fn is_text(c: &Ctor) -> bool {
    matches!(c, Ctor::StrRef | Ctor::StringOwned | Ctor::StringExcess(_) | Ctor::CowStr | Ctor::FromUtf8)
}
fn build(c: &Ctor, bytes: &[u8]) -> SharedBytes {
    match c {
        Ctor::Slice => SharedBytes::from_slice(bytes),
        Ctor::VecExact => {
            let mut v = bytes.to_vec();
            v.shrink_to_fit();
            SharedBytes::from_vec(v)
        }
        Ctor::VecExcess(n) => {
            let mut v = Vec::with_capacity(bytes.len() + n);
            v.extend_from_slice(bytes);
            SharedBytes::from(v)
        }
        Ctor::VecNew => {
            let mut v = Vec::new();
            v.extend_from_slice(bytes);
            SharedBytes::from(v)
        }
        Ctor::BoxSlice => SharedBytes::from(bytes.to_vec().into_boxed_slice()),
        Ctor::CowBorrowed => SharedBytes::from(Cow::Borrowed(bytes)),
        Ctor::CowOwned => SharedBytes::from(Cow::<[u8]>::Owned(bytes.to_vec())),
        Ctor::Iter => bytes.iter().copied().collect(),
        Ctor::StrRef => SharedString::from(std::str::from_utf8(bytes).unwrap()).into_bytes(),
        Ctor::StringOwned => SharedString::from(String::from_utf8(bytes.to_vec()).unwrap()).into_bytes(),
        Ctor::StringExcess(n) => {
            let mut s = String::with_capacity(bytes.len() + n);
            s.push_str(std::str::from_utf8(bytes).unwrap());
            SharedString::from(s).into_bytes()
        }
        Ctor::CowStr => SharedString::from(Cow::Borrowed(std::str::from_utf8(bytes).unwrap())).into_bytes(),
        Ctor::FromUtf8 => SharedString::from_utf8(SharedBytes::from_slice(bytes)).unwrap().into_bytes(),
    }
}
fn hash_of<T: Hash + ?Sized>(t: &T) -> u64 {
    let mut h = std::collections::hash_map::DefaultHasher::new();
    t.hash(&mut h);
    h.finish()
}

// a minimal serde Deserializer that hands one prepared value to the visitor
pub enum Feed {
    Bytes(Vec<u8>),
    ByteBuf(Vec<u8>),
    Str(String),
    String(String),
}
#[derive(Debug)]
pub struct DeErr(pub String);
impl std::fmt::Display for DeErr {
    fn fmt(&self, f: &mut std::fmt::Formatter<'_>) -> std::fmt::Result {
        f.write_str(&self.0)
    }
}
impl std::error::Error for DeErr {}
impl serde::de::Error for DeErr {
    fn custom<T: std::fmt::Display>(m: T) -> Self {
        DeErr(m.to_string())
    }
}
impl<'de> serde::Deserializer<'de> for Feed {
    type Error = DeErr;
    fn deserialize_any<V: serde::de::Visitor<'de>>(self, v: V) -> Result<V::Value, DeErr> {
        match self {
            Feed::Bytes(b) => v.visit_bytes(&b),
            Feed::ByteBuf(b) => v.visit_byte_buf(b),
            Feed::Str(s) => v.visit_str(&s),
            Feed::String(s) => v.visit_string(s),
        }
    }
    serde::forward_to_deserialize_any! { bool i8 i16 i32 i64 i128 u8 u16 u32 u64 u128 f32 f64 char str string bytes byte_buf option unit unit_struct newtype_struct seq tuple tuple_struct map struct enum identifier ignored_any }
}

fn pure_clauses(strings: &[Vec<u8>]) {
    for (i, a) in strings.iter().enumerate() {
        let sa = SharedBytes::from_slice(a);
        let std_ok = std::str::from_utf8(a).is_ok();
        match SharedString::from_utf8(sa.clone()) {
            Ok(s) => {
                detsim::check(std_ok, "C16/from_utf8-accepts-invalid", || format!("from_utf8 accepted invalid bytes {a:?}"));
                detsim::check(s.as_bytes() == &a[..] && std::str::from_utf8(s.as_bytes()).is_ok(), "C16/string-content", || format!("SharedString content differs for {a:?}"));
            }
            Err(_) => detsim::check(!std_ok, "C16/from_utf8-rejects-valid", || format!("from_utf8 rejected valid bytes {a:?}")),
        }
        for feed in 0..4 {
            let f = match feed {
                0 => Feed::Bytes(a.clone()),
                1 => Feed::ByteBuf(a.clone()),
                2 if std_ok => Feed::Str(String::from_utf8(a.clone()).unwrap()),
                3 if std_ok => Feed::String(String::from_utf8(a.clone()).unwrap()),
                _ => continue,
            };
            match <SharedString as serde::Deserialize>::deserialize(f) {
                Ok(s) => detsim::check(std_ok && s.as_bytes() == &a[..], "C16/deserialize-string", || format!("deserialize (feed {feed}) gave {:?} for {a:?}", s.as_bytes())),
                Err(_) => detsim::check(!std_ok, "C16/deserialize-string", || format!("deserialize (feed {feed}) rejected valid {a:?}")),
            }
            let f = match feed {
                0 => Feed::Bytes(a.clone()),
                1 => Feed::ByteBuf(a.clone()),
                2 if std_ok => Feed::Str(String::from_utf8(a.clone()).unwrap()),
                3 if std_ok => Feed::String(String::from_utf8(a.clone()).unwrap()),
                _ => continue,
            };
            match <SharedBytes as serde::Deserialize>::deserialize(f) {
                Ok(b) => detsim::check(&b[..] == &a[..], "C16/deserialize-bytes", || format!("deserialize bytes (feed {feed}) gave {:?} for {a:?}", &b[..])),
                Err(e) => detsim::fail("C16/deserialize-bytes", format!("deserialize bytes failed: {e}")),
            }
        }
        detsim::check(hash_of(&sa) == hash_of(&a[..]), "C16/hash", || format!("hash differs from slice hash for {a:?}"));
        detsim::check(sa == a[..] && sa == &a[..] && sa == *a, "C16/eq-slice", || format!("== with slice/vec false for {a:?}"));
        for b in strings.iter().skip(i) {
            let sb = SharedBytes::from(b.clone());
            detsim::check((sa == sb) == (a == b), "C16/eq", || format!("eq mismatch {a:?} {b:?}"));
            detsim::check(sa.cmp(&sb) == a.cmp(b) && sa.partial_cmp(&sb) == a.partial_cmp(b) && sa.partial_cmp(&b[..]) == Some(a[..].cmp(&b[..])), "C16/ord", || format!("ord mismatch {a:?} {b:?}"));
            if let (Ok(x), Ok(y)) = (std::str::from_utf8(a), std::str::from_utf8(b)) {
                let (tx, ty) = (SharedString::from(x), SharedString::from(y.to_string()));
                detsim::check((tx == ty) == (x == y) && tx.cmp(&ty) == x.cmp(y) && hash_of(&tx) == hash_of(x) && tx == *x && tx == x && tx == x.to_string(), "C16/string-eq-ord-hash", || format!("string eq/ord/hash mismatch {x:?} {y:?}"));
            }
        }
    }
}

pub struct C16;
impl Property for C16 {
    fn id(&self) -> &'static str {
        "C16"
    }
    fn info(&self) -> PropInfo {
        PropInfo {
            level: "exploration",
            rule: "a run is non-trivial when clones of one buffer were dropped by >= 2 different threads and the last two drops overlapped or the final drop happened on a thread other than the creator",
            real: &["src/utils/bytes.rs (real atomics, real allocator calls)", "src/utils/string.rs", "serde visitors of SharedBytes/SharedString"],
            stub: &["OS scheduler (detsim; scheduling points in front of the refcount operations, hook H5)", "global allocator wrapped by an accounting layer (layout check on free, live blocks)"],
            assumptions: &["sequential consistency under engine A; memory-ordering mistakes are only visible to the Miri engine", "UTF-8 / Eq / Ord / Hash clauses are pure functions of generated data, exercised inside the simulated workload but not decided by scheduling"],
            runs: (250_000, 8_000_000),
        }
    }
    fn generate(&self, g: &mut SplitMix, k: &mut SplitMix, _tier: Tier) -> (Knobs, Value) {
        let mut knobs = Knobs::draw(k);
        knobs.atomic_mask = detsim::AT_BYTES;
        let ctor = match g.below(13) {
            0 => Ctor::Slice,
            1 => Ctor::VecExact,
            2 => Ctor::VecExcess(1 + g.below(40) as usize),
            3 => Ctor::VecNew,
            4 => Ctor::BoxSlice,
            5 => Ctor::CowBorrowed,
            6 => Ctor::CowOwned,
            7 => Ctor::Iter,
            8 => Ctor::StrRef,
            9 => Ctor::StringOwned,
            10 => Ctor::StringExcess(1 + g.below(40) as usize),
            11 => Ctor::CowStr,
            _ => Ctor::FromUtf8,
        };
        let len = match g.below(10) {
            0 | 1 => 0,
            2 => 1,
            9 => 4096 + g.below(5000) as usize,
            _ => g.below(65) as usize,
        };
        let nthreads = 2 + g.below(3) as usize;
        let threads = (0..nthreads)
            .map(|_| {
                (0..g.below(7))
                    .map(|_| match g.below(10) {
                        0 | 1 | 2 => Op::Clone,
                        3 | 4 | 5 => Op::Drop,
                        6 => Op::Read,
                        7 => Op::CmpHash,
                        _ => Op::Send(g.below(nthreads as u64) as usize),
                    })
                    .collect()
            })
            .collect();
        // boundary-focused byte strings: lone / stray continuation bytes, truncated and overlong sequences, surrogates, > U+10FFFF
        let pool: [&[u8]; 24] = [
            b"", b"a", b"ab", b"b", "\u{e9}".as_bytes(), &[0xc3], &[0xe2, 0x82], "\u{20ac}".as_bytes(), &[0xff, 0x61], &[0xf0, 0x9f, 0x98, 0x80],
            &[0x80], &[0x69, 0x64, 0x80], &[0x61, 0x80, 0x62], &[0x7f, 0x80], &[0xbf], &[0xc0, 0x80], &[0xc1, 0xbf], &[0xe0, 0x80, 0x80],
            &[0xed, 0xa0, 0x80], &[0xf4, 0x90, 0x80, 0x80], &[0xf5], &[0xf0, 0x9f, 0x98], &[0x7f], &[0xc2, 0x80],
        ];
        let strings = (0..g.below(5)).map(|_| if g.chance(3, 4) { pool[g.below(24) as usize].to_vec() } else { (0..g.below(6)).map(|_| if g.chance(1, 2) { 0x7e + g.below(4) as u8 } else { g.below(256) as u8 }).collect() }).collect();
        (knobs, serde_json::to_value(Work { ctor, len, fill: g.next(), threads, early_drop: g.chance(1, 2), strings }).unwrap())
    }
    fn execute(&self, case: &Case) -> Outcome {
        let w: Work = serde_json::from_value(case.work.clone()).unwrap();
        let shape = fnv(case.work.to_string().as_bytes());
        let nontrivial = shared(false);
        let nt = nontrivial.clone();
        let cfg = case.knobs.to_config(case.seed, case.tape.clone());
        let r = detsim::run(cfg, move || {
            pure_clauses(&w.strings);
            let expect = content(w.len, w.fill, is_text(&w.ctor));
            let n = w.threads.len();
            // inboxes for clones moved across threads
            let chans: Vec<(detsim::chan::Sender<SharedBytes>, detsim::chan::Receiver<SharedBytes>)> = (0..n).map(|_| detsim::chan::unbounded()).collect();
            let senders: Vec<_> = chans.iter().map(|c| c.0.clone()).collect();
            let drops: Shared<Vec<(usize, u64, u64)>> = shared(Vec::with_capacity(64));
            ledger::alloc_begin();
            let original = ledger::tracked(|| build(&w.ctor, &expect));
            detsim::check(&original[..] == &expect[..], "C16/content", || format!("constructor {:?} len {} gave different bytes", w.ctor, w.len));
            let mut hs = vec![];
            for (t, ops) in w.threads.iter().enumerate() {
                let first = ledger::tracked(|| original.clone());
                let (ops, expect, senders, drops) = (ops.clone(), expect.clone(), senders.clone(), drops.clone());
                let inbox = chans[t].1.clone();
                hs.push(detsim::thread::spawn_named(format!("b{t}"), move || {
                    let mut mine = ledger::untracked(|| Vec::with_capacity(16));
                    ledger::untracked(|| mine.push(first));
                    let dropit = |x: SharedBytes| {
                        let a = detsim::seq();
                        ledger::tracked(|| drop(x));
                        let b = detsim::seq();
                        ledger::untracked(|| drops.lock().unwrap().push((t, a, b)));
                    };
                    for op in ops {
                        while let Ok(x) = inbox.try_recv() {
                            ledger::untracked(|| mine.push(x));
                        }
                        match op {
                            Op::Clone => {
                                if let Some(x) = mine.last() {
                                    let c = ledger::tracked(|| x.clone());
                                    ledger::untracked(|| mine.push(c));
                                }
                            }
                            Op::Drop => {
                                if let Some(x) = mine.pop() {
                                    dropit(x);
                                }
                            }
                            Op::Read => {
                                for x in &mine {
                                    detsim::check(&x[..] == &expect[..], "C16/content", || format!("a clone reads {:?}.. instead of the original bytes", &x[..x.len().min(8)]));
                                }
                            }
                            Op::CmpHash => {
                                if let Some(x) = mine.last() {
                                    detsim::check(*x == expect[..] && hash_of(x) == hash_of(&expect[..]), "C16/content", || "eq/hash with original failed".to_string());
                                }
                            }
                            Op::Send(to) => {
                                if let Some(x) = mine.pop() {
                                    if let Err(e) = senders[to].send(x) {
                                        dropit(e.0);
                                    }
                                }
                            }
                        }
                    }
                    detsim::thread::yield_now();
                    while let Some(x) = mine.pop() {
                        detsim::check(&x[..] == &expect[..], "C16/content", || "final read differs".to_string());
                        dropit(x);
                    }
                    ledger::untracked(|| drop(mine));
                }));
            }
            drop(senders);
            let mut original = Some(original);
            if w.early_drop {
                let a = detsim::seq();
                ledger::tracked(|| drop(original.take()));
                let b = detsim::seq();
                ledger::untracked(|| drops.lock().unwrap().push((99, a, b)));
            }
            for h in hs {
                let _ = h.join();
            }
            if let Some(o) = &original {
                detsim::check(&o[..] == &expect[..], "C16/content", || "original differs after all clones were used".to_string());
            }
            let a = detsim::seq();
            // whatever is still queued, then the original
            for (tx, rx) in chans {
                drop(tx);
                while let Ok(x) = rx.try_recv() {
                    detsim::check(&x[..] == &expect[..], "C16/content", || "queued clone differs".to_string());
                    ledger::tracked(|| drop(x));
                }
            }
            ledger::tracked(|| drop(original));
            let b = detsim::seq();
            let rep = ledger::alloc_report();
            ledger::alloc_end();
            detsim::check(rep.layout_mismatches == 0, "C16/dealloc-layout", || format!("a block allocated with (size {}, align {}) was freed with (size {}, align {}) [ctor {:?}, len {}]", rep.first_mismatch.0, rep.first_mismatch.1, rep.first_mismatch.2, rep.first_mismatch.3, w.ctor, w.len));
            detsim::check(rep.live_blocks == 0, "C16/leak", || format!("{} block(s) still allocated after the last clone was dropped: (size, align) {:?} [ctor {:?}, len {}]", rep.live_blocks, rep.live_sample, w.ctor, w.len));
            let mut d = drops.lock().unwrap().clone();
            if !w.early_drop {
                d.push((99, a, b));
            }
            let threads: std::collections::BTreeSet<usize> = d.iter().map(|x| x.0).collect();
            d.sort_by_key(|x| x.2);
            let overlap = d.len() >= 2 && {
                let (l, p) = (d[d.len() - 1], d[d.len() - 2]);
                l.0 != p.0 && l.1 < p.2
            };
            *nt.lock().unwrap() = threads.len() >= 3 && (overlap || d.last().map(|x| x.0 != 99).unwrap_or(false) || d.len() > 3);
        });
        ledger::alloc_end();
        let nontrivial = *nontrivial.lock().unwrap();
        outcome_from(r, nontrivial, shape, |f| f.rule())
    }
    fn shrink(&self, work: &Value) -> Vec<Value> {
        let w: Work = serde_json::from_value(work.clone()).unwrap();
        let mut out = vec![];
        if !w.strings.is_empty() {
            let mut x = w.clone();
            x.strings.clear();
            out.push(x);
        }
        for t in 0..w.threads.len() {
            if w.threads.len() > 1 {
                let mut x = w.clone();
                x.threads.remove(t);
                for th in x.threads.iter_mut() {
                    for op in th.iter_mut() {
                        if let Op::Send(k) = op {
                            *k = (*k).min(w.threads.len() - 2);
                        }
                    }
                }
                out.push(x);
            }
            for i in 0..w.threads[t].len() {
                let mut x = w.clone();
                x.threads[t].remove(i);
                out.push(x);
            }
        }
        if w.len > 1 {
            let mut x = w.clone();
            x.len = w.len / 2;
            out.push(x);
        }
        out.into_iter().map(|x| serde_json::to_value(x).unwrap()).collect()
    }
}
