//! C17 — OnceInitCell initialises once, keeps its seed on failure, drops once.
use crate::common::*;
use crate::ledger::{self, Tracked};
use assets_manager::OnceInitCell;
use detsim::SplitMix;
use serde::{Deserialize, Serialize};
use serde_json::Value;
use std::panic::{catch_unwind, AssertUnwindSafe};
use std::sync::atomic::{AtomicI64, AtomicU64, Ordering};
use std::sync::Arc;

#[derive(Clone, Copy, Debug, Serialize, Deserialize, PartialEq)]
pub enum SeedTy {
    /// seed with a destructor (default code path)
    Droppy,
    /// seed with a destructor that panics
    Bomb,
    /// plain integer: the no-drop fast path
    Plain,
    /// zero-sized seed with a destructor
    ZstDroppy,
}
#[derive(Clone, Copy, Debug, Serialize, Deserialize, PartialEq)]
pub enum Res {
    Ok,
    Err,
    Panic,
}
#[derive(Clone, Debug, Serialize, Deserialize, PartialEq)]
pub enum Op {
    Get,
    Init(Res),
    TryInit(Res),
}
#[derive(Clone, Debug, Serialize, Deserialize)]
pub struct Work {
    pub seed: SeedTy,
    pub prefilled: bool,
    pub threads: Vec<Vec<Op>>,
    /// the cell is dropped while its owning frame unwinds from a panic (instead of a normal drop)
    #[serde(default)]
    pub drop_in_unwind: bool,
}

pub struct Val {
    pub t: Tracked,
    pub by: (usize, usize),
}
pub trait Seed: Send + 'static {
    fn make() -> Self;
    /// identity of the seed (to check "the next initialiser sees the same seed")
    fn ident(&mut self) -> u64;
    fn alive(id: u64) -> bool;
}
pub struct Droppy(Tracked);
impl Seed for Droppy {
    fn make() -> Self {
        Droppy(Tracked::new("seed"))
    }
    fn ident(&mut self) -> u64 {
        self.0.id
    }
    fn alive(id: u64) -> bool {
        ledger::is_live(id)
    }
}
pub struct Bomb(Tracked);
impl Seed for Bomb {
    fn make() -> Self {
        Bomb(Tracked::new("seed-bomb"))
    }
    fn ident(&mut self) -> u64 {
        self.0.id
    }
    fn alive(id: u64) -> bool {
        ledger::is_live(id)
    }
}
impl Drop for Bomb {
    fn drop(&mut self) {
        detsim::count("fault.seed_drop_panics");
        if !std::thread::panicking() {
            std::panic::panic_any(detsim::InjectedPanic("seed destructor".into()));
        }
    }
}
impl Seed for u32 {
    fn make() -> Self {
        0xC0FFEE
    }
    fn ident(&mut self) -> u64 {
        // the seed is mutable state handed to every initialiser: count the visits in it
        *self += 1;
        0xC0FFEE
    }
    fn alive(_: u64) -> bool {
        true
    }
}
static ZST_LIVE: AtomicI64 = AtomicI64::new(0);
static ZST_DROPS: AtomicU64 = AtomicU64::new(0);
pub struct Zst;
impl Seed for Zst {
    fn make() -> Self {
        ZST_LIVE.fetch_add(1, Ordering::SeqCst);
        Zst
    }
    fn ident(&mut self) -> u64 {
        7
    }
    fn alive(_: u64) -> bool {
        ZST_LIVE.load(Ordering::SeqCst) == 1
    }
}
impl Drop for Zst {
    fn drop(&mut self) {
        ZST_LIVE.fetch_sub(1, Ordering::SeqCst);
        ZST_DROPS.fetch_add(1, Ordering::SeqCst);
    }
}

#[derive(Default)]
struct Shared17 {
    inside: i64,
    successes: Vec<(usize, usize, u64)>,
    seed_ids: Vec<u64>,
    refs: Vec<(usize, u64)>,
    overlapped_inits: bool,
    failures_before_success: u64,
    /// stamp at which some caller first came back with a reference (the cell was initialised by then)
    first_ok_return: Option<u64>,
}

/// Every (seed type, value type) pairing of "has a destructor" x "has none": the cell's own Drop and its failure paths
/// choose what to drop from these types, so the pairings are distinct code paths. Sequential; each history is
/// never initialised / failed (Err, panic) / succeeded, then the cell is dropped and the ledger must be empty.
fn type_pair_sweep(history: u8) {
    fn run<T: Send + Sync + 'static>(history: u8, mk: impl Fn() -> T, label: &str) {
        let live0 = ledger::live().len();
        let cell: OnceInitCell<Droppy, T> = OnceInitCell::new(Droppy::make());
        let seed_live = || ledger::live().iter().filter(|x| x.1 == "seed").count();
        detsim::check(seed_live() == 1, "C17/seed-dropped-early", || format!("[{label}] a fresh cell does not own a live seed"));
        match history {
            0 => {}
            1 => {
                let r: Result<&T, u8> = cell.get_or_try_init(|_| Err(3));
                detsim::check(r.is_err() && cell.get().is_none() && seed_live() == 1, "C17/seed-dropped-early", || format!("[{label}] after a failing initialiser: initialised={}, live seeds {}", cell.get().is_some(), seed_live()));
            }
            2 => {
                let r = std::panic::catch_unwind(std::panic::AssertUnwindSafe(|| {
                    cell.get_or_init(|_| std::panic::panic_any(detsim::InjectedPanic("initialiser".into())));
                }));
                detsim::check(r.is_err() && cell.get().is_none() && seed_live() == 1, "C17/seed-dropped-early", || format!("[{label}] after a panicking initialiser: initialised={}, live seeds {}", cell.get().is_some(), seed_live()));
            }
            _ => {
                let _ = cell.get_or_init(|_| mk());
                detsim::check(cell.get().is_some() && seed_live() == 0, "C17/seed-and-value-both-alive", || format!("[{label}] after a successful initialiser: initialised={}, live seeds {}", cell.get().is_some(), seed_live()));
            }
        }
        drop(cell);
        let left: Vec<_> = ledger::live().into_iter().skip(live0).collect();
        detsim::check(left.is_empty(), "C17/leak", || format!("[{label}] history {history}: after dropping the cell these are still alive: {left:?}"));
        detsim::count("reach.type_pair_sweep");
    }
    run::<u64>(history, || 5, "seed with destructor, value u64 (no destructor)");
    run::<()>(history, || (), "seed with destructor, value ()");
    run::<Tracked>(history, || Tracked::new("value"), "seed with destructor, value with destructor");
}

fn scenario<U: Seed>(w: Work, nt: Shared<bool>) {
    type_pair_sweep((w.threads.len() + w.threads.iter().map(|t| t.len()).sum::<usize>()) as u8 % 4);
    ZST_LIVE.store(0, Ordering::SeqCst);
    ZST_DROPS.store(0, Ordering::SeqCst);
    let sh: Shared<Shared17> = shared(Shared17::default());
    let cell: Arc<OnceInitCell<U, Val>> = Arc::new(if w.prefilled { OnceInitCell::with_value(Val { t: Tracked::new("value-prefilled"), by: (99, 0) }) } else { OnceInitCell::new(U::make()) });
    let mut hs = vec![];
    for (t, ops) in w.threads.iter().enumerate() {
        let (cell, sh, ops) = (cell.clone(), sh.clone(), ops.clone());
        hs.push(detsim::thread::spawn_named(format!("i{t}"), move || {
            for (k, op) in ops.into_iter().enumerate() {
                let init = |res: Res, u: &mut U| -> Result<Val, String> {
                    {
                        let mut s = sh.lock().unwrap();
                        s.inside += 1;
                        if s.inside > 1 {
                            s.overlapped_inits = true;
                            detsim::report("C17/initialisers-overlap", format!("{} initialisers run at the same time on one cell (t{t} op {k})", s.inside));
                        }
                        if !s.successes.is_empty() {
                            detsim::report("C17/initialised-twice", format!("an initialiser runs although the cell was already initialised by {:?}", s.successes[0]));
                        }
                        let id = u.ident();
                        if let Some(&first) = s.seed_ids.first() {
                            if first != id {
                                detsim::report("C17/seed-changed", format!("initialiser sees seed {id}, an earlier one saw {first}"));
                            }
                        }
                        if !U::alive(id) {
                            detsim::report("C17/seed-dropped-early", format!("initialiser handed a seed (#{id}) that was already dropped"));
                        }
                        s.seed_ids.push(id);
                    }
                    detsim::yield_point("init.body");
                    let out = match res {
                        Res::Ok => Ok(Val { t: Tracked::new(format!("value by t{t} op {k}")), by: (t, k) }),
                        Res::Err => Err("init error".to_string()),
                        Res::Panic => {
                            sh.lock().unwrap().inside -= 1;
                            sh.lock().unwrap().failures_before_success += 1;
                            detsim::count("fault.init_panics");
                            std::panic::panic_any(detsim::InjectedPanic("initialiser".into()))
                        }
                    };
                    let mut s = sh.lock().unwrap();
                    s.inside -= 1;
                    match &out {
                        Ok(v) => s.successes.push((t, k, v.t.id)),
                        Err(_) => {
                            s.failures_before_success += 1;
                            detsim::count("fault.init_errs");
                        }
                    }
                    out
                };
                match op {
                    Op::Get => {
                        let b0 = detsim::my_block_count();
                        let g0 = detsim::seq();
                        let g = cell.get();
                        detsim::check(detsim::my_block_count() == b0, "C17/get-blocked", || "get() had to block".into());
                        let mut s = sh.lock().unwrap();
                        match g {
                            Some(v) => {
                                detsim::check(ledger::is_live(v.t.id), "C17/value-dead", || format!("get() returned a dropped value #{}", v.t.id));
                                detsim::check(w.prefilled || s.successes.iter().any(|x| x.2 == v.t.id), "C17/phantom-value", || format!("get() returned value #{} that no successful initialiser produced", v.t.id));
                                s.refs.push((v as *const Val as usize, v.t.id));
                            }
                            None => detsim::check(!w.prefilled && !s.first_ok_return.map(|c| c < g0).unwrap_or(false), "C17/get-none-after-init", || "get() returned None although an initialisation had completed before it was called".into()),
                        }
                    }
                    Op::Init(res) | Op::TryInit(res) => {
                        let is_try = matches!(op, Op::TryInit(_));
                        let r = catch_unwind(AssertUnwindSafe(|| {
                            if is_try {
                                cell.get_or_try_init(|u| init(res, u)).map(|v| (v as *const Val as usize, v.t.id, v.by))
                            } else {
                                Ok::<_, String>(cell.get_or_init(|u| match init(if res == Res::Err { Res::Ok } else { res }, u) {
                                    Ok(v) => v,
                                    Err(_) => unreachable!(),
                                }))
                                .map(|v| (v as *const Val as usize, v.t.id, v.by))
                            }
                        }));
                        let r = detsim::reraise_abort(r);
                        let mut s = sh.lock().unwrap();
                        match r {
                            Ok(Ok((ptr, id, _by))) => {
                                let now = detsim::seq();
                                if s.first_ok_return.is_none() {
                                    s.first_ok_return = Some(now);
                                }
                                detsim::check(ledger::is_live(id), "C17/value-dead", || format!("returned value #{id} is already dropped"));
                                s.refs.push((ptr, id));
                            }
                            Ok(Err(_)) => {
                                detsim::check(res == Res::Err, "C17/spurious-error", || "get_or_try_init returned Err although this initialiser did not fail".into());
                            }
                            Err(_) => {
                                // panic reached the caller: from the initialiser, or from the seed destructor after a success
                                let bomb_after_success = w.seed == SeedTy::Bomb && s.successes.iter().any(|x| x.0 == t && x.1 == k);
                                detsim::check(res == Res::Panic || bomb_after_success, "C17/unexpected-panic", || format!("unexpected panic out of get_or_init (t{t} op {k} {op:?})"));
                            }
                        }
                    }
                }
            }
        }));
    }
    for h in hs {
        let _ = h.join();
    }
    let s = sh.lock().unwrap();
    detsim::check(s.successes.len() <= 1, "C17/initialised-twice", || format!("{} initialisers succeeded: {:?}", s.successes.len(), s.successes));
    // every returned reference is the same place and the same value
    if let Some(&(p0, id0)) = s.refs.first() {
        detsim::check(s.refs.iter().all(|&(p, id)| p == p0 && id == id0), "C17/different-references", || format!("callers hold different references/values: {:?}", s.refs));
    }
    let inited = cell.get().is_some();
    detsim::check(inited == (w.prefilled || !s.successes.is_empty()), "C17/state-mismatch", || format!("cell initialised = {inited} but successes = {:?}", s.successes));
    // exactly one of seed / value exists
    let live = ledger::live();
    let (seeds, vals): (Vec<_>, Vec<_>) = live.iter().partition(|(_, l)| l.starts_with("seed"));
    match w.seed {
        SeedTy::Droppy | SeedTy::Bomb => {
            detsim::check(seeds.len() + vals.len() == 1, "C17/seed-value-exclusive", || format!("live seeds {seeds:?} and live values {vals:?} (exactly one of them must exist)"));
            detsim::check(inited == (vals.len() == 1), "C17/seed-value-exclusive", || format!("initialised={inited} but live values {vals:?}, live seeds {seeds:?}"));
        }
        SeedTy::Plain => detsim::check(vals.len() == inited as usize, "C17/value-count", || format!("live values {vals:?}")),
        SeedTy::ZstDroppy => {
            let zl = ZST_LIVE.load(Ordering::SeqCst);
            detsim::check(vals.len() == inited as usize && (w.prefilled || zl == (!inited) as i64), "C17/seed-value-exclusive", || format!("zero-sized seed live count {zl}, initialised={inited}, values {vals:?}"));
        }
    }
    let contended = s.overlapped_inits || detsim::thread_infos().iter().filter(|t| t.name.starts_with('i')).count() >= 2;
    *nt.lock().unwrap() = contended && (s.failures_before_success > 0 || s.refs.len() >= 2);
    drop(s);
    // drop the cell: whatever it holds goes away exactly once
    let unwind = w.drop_in_unwind;
    let r = catch_unwind(AssertUnwindSafe(move || {
        let _owner = cell;
        if unwind {
            detsim::count("fault.cell_dropped_during_unwinding");
            std::panic::panic_any(detsim::InjectedPanic("owner of the cell".into()));
        }
    }));
    let _ = detsim::reraise_abort(r);
    let live = ledger::live();
    detsim::check(live.is_empty(), "C17/leak", || format!("still alive after the cell was dropped: {live:?}"));
    if w.seed == SeedTy::ZstDroppy && !w.prefilled {
        let (zl, zd) = (ZST_LIVE.load(Ordering::SeqCst), ZST_DROPS.load(Ordering::SeqCst));
        detsim::check(zl == 0 && zd == 1, "C17/zst-seed-drop-count", || format!("zero-sized seed: live {zl}, dropped {zd} times (expected 0 / 1)"));
    }
}

pub struct C17;
impl Property for C17 {
    fn id(&self) -> &'static str {
        "C17"
    }
    fn info(&self) -> PropInfo {
        PropInfo {
            level: "exploration",
            rule: "a run is non-trivial when >= 2 threads used the cell and either an initialiser failed (Err/panic) before another attempt, or >= 2 callers obtained a reference",
            real: &["src/utils/cell.rs (both code paths: seed with and without destructor)"],
            stub: &["once_cell::sync::OnceCell (detsim model: concurrent initialisers block, failure resets and wakes waiters; real once_cell under the Miri engine)", "OS scheduler"],
            assumptions: &["the OnceCell model follows once_cell's documented contract (checked against the real crate by the fidelity tests)"],
            runs: (350_000, 10_000_000),
        }
    }
    fn generate(&self, g: &mut SplitMix, k: &mut SplitMix, _tier: Tier) -> (Knobs, Value) {
        let knobs = Knobs::draw(k);
        let seed = match g.below(8) {
            0 | 1 | 2 => SeedTy::Droppy,
            3 => SeedTy::Bomb,
            4 | 5 => SeedTy::Plain,
            _ => SeedTy::ZstDroppy,
        };
        let n = 1 + g.below(4) as usize;
        let fail_heavy = g.chance(1, 2);
        let threads = (0..n)
            .map(|_| {
                (0..1 + g.below(4))
                    .map(|_| {
                        let res = if fail_heavy { *g.pick(&[Res::Ok, Res::Err, Res::Err, Res::Panic, Res::Panic]) } else { *g.pick(&[Res::Ok, Res::Ok, Res::Ok, Res::Err, Res::Panic]) };
                        match g.below(5) {
                            0 => Op::Get,
                            1 | 2 => Op::Init(if res == Res::Err { Res::Ok } else { res }),
                            _ => Op::TryInit(res),
                        }
                    })
                    .collect()
            })
            .collect();
        (knobs, serde_json::to_value(Work { seed, prefilled: g.chance(1, 12), threads, drop_in_unwind: g.chance(1, 4) }).unwrap())
    }
    fn execute(&self, case: &Case) -> Outcome {
        let w: Work = serde_json::from_value(case.work.clone()).unwrap();
        let shape = fnv(case.work.to_string().as_bytes());
        let nt = shared(false);
        let nt2 = nt.clone();
        let cfg = case.knobs.to_config(case.seed, case.tape.clone());
        ledger::reset();
        let r = detsim::run(cfg, move || match w.seed {
            SeedTy::Droppy => scenario::<Droppy>(w, nt2),
            SeedTy::Bomb => scenario::<Bomb>(w, nt2),
            SeedTy::Plain => scenario::<u32>(w, nt2),
            SeedTy::ZstDroppy => scenario::<Zst>(w, nt2),
        });
        let nontrivial = *nt.lock().unwrap();
        outcome_from(r, nontrivial, shape, |f| f.rule())
    }
    fn shrink(&self, work: &Value) -> Vec<Value> {
        let w: Work = serde_json::from_value(work.clone()).unwrap();
        let mut out = vec![];
        for t in 0..w.threads.len() {
            if w.threads.len() > 1 {
                let mut x = w.clone();
                x.threads.remove(t);
                out.push(x);
            }
            for i in 0..w.threads[t].len() {
                let mut x = w.clone();
                x.threads[t].remove(i);
                out.push(x);
            }
        }
        out.into_iter().map(|x| serde_json::to_value(x).unwrap()).collect()
    }
}
