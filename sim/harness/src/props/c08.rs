//! C08 — hot_reload always returns: no deadlock, no crash, any number of callers.
use crate::common::*;
use crate::ledger::Tracked;
use crate::world::*;
use assets_manager::{AnyCache, AssetCache, BoxedError, Compound, SharedString};
use assets_manager::source::Source;
use detsim::SplitMix;
use serde::{Deserialize, Serialize};
use serde_json::Value;

/// A compound that looks other `Look`s up in the cache (never loads them): lets assets reference each other, or themselves.
pub struct Look {
    pub seen: Vec<Option<usize>>,
    pub t: Tracked,
}
impl Compound for Look {
    fn load(cache: AnyCache, id: &SharedString) -> Result<Self, BoxedError> {
        let source = cache.raw_source();
        let text = String::from_utf8(source.read(id, "lk")?.as_ref().to_vec())?;
        let mut seen = vec![];
        for peer in text.split_whitespace() {
            // a load that panics (during a reload this happens on the hot-reloading thread): with a formatted message
            // (String payload), a literal one (&'static str) or an arbitrary payload
            match peer {
                "panic:fmt" => {
                    detsim::count("fault.loader_panics_during_reload");
                    panic!("look {id} cannot be loaded ({} bytes)", text.len())
                }
                "panic:str" => {
                    detsim::count("fault.loader_panics_during_reload");
                    panic!("look cannot be loaded")
                }
                "panic:any" => {
                    detsim::count("fault.loader_panics_during_reload");
                    std::panic::panic_any(detsim::InjectedPanic(format!("look {id}")))
                }
                _ => {}
            }
            if let Some(leaf) = peer.strip_prefix("leaf:") {
                seen.push(cache.load::<LA>(leaf).ok().map(|h| h.read().0.bytes.len()));
            } else {
                seen.push(cache.get_cached::<Look>(peer).map(|h| h.read().seen.len()));
            }
        }
        Ok(Look { seen, t: Tracked::new(format!("look {id}")) })
    }
}

#[derive(Clone, Debug, Serialize, Deserialize, PartialEq)]
pub enum Op {
    HotReload,
    LoadLeaf(usize),
    LoadLook(usize),
    Insert(usize),
    EditLeaf(usize),
    EditLook(usize),
    NotifyLeaf(usize),
    NotifyLook(usize),
    NotifyBurst(usize),
    /// the source drops its EventSender: no event will ever arrive again
    DropSender,
    /// rewrite a Look so that its next reload loads several hundred assets that are not cached yet (each registers itself
    /// with the reloader from the reloader's own thread), and notify it
    EditLookBig(usize, usize),
    /// rewrite a Look so that its next (re)load panics (payload kind 0..3), and notify it
    EditLookPanic(usize, u8),
}
#[derive(Clone, Debug, Serialize, Deserialize)]
pub struct Work {
    /// look-up lists of the Look assets q0..qn: entries are indexes of other Looks (may be cyclic / self) or leaves (100+i)
    pub looks: Vec<Vec<usize>>,
    pub preload: Vec<usize>,
    pub threads: Vec<Vec<Op>>,
    /// the cache is 'static and enhance_hot_reloading() is called before the threads start: hot_reload() calls made
    /// afterwards are allowed (and have nothing to do) and must still return
    #[serde(default)]
    pub static_mode: bool,
}
fn lk_text(peers: &[usize]) -> String {
    peers.iter().map(|p| if *p >= 100 { format!("leaf:k{}", p - 100) } else { format!("q{p}") }).collect::<Vec<_>>().join(" ")
}
fn has_cycle(looks: &[Vec<usize>]) -> bool {
    // a cycle among look-ups (including self look-up)
    fn dfs(v: usize, looks: &[Vec<usize>], st: &mut Vec<u8>) -> bool {
        st[v] = 1;
        for &p in &looks[v] {
            if p < looks.len() && (st[p] == 1 || (st[p] == 0 && dfs(p, looks, st))) {
                return true;
            }
        }
        st[v] = 2;
        false
    }
    let mut st = vec![0u8; looks.len()];
    (0..looks.len()).any(|v| st[v] == 0 && dfs(v, looks, &mut st))
}

pub struct C08;
impl Property for C08 {
    fn id(&self) -> &'static str {
        "C08"
    }
    fn info(&self) -> PropInfo {
        PropInfo {
            level: "exploration",
            rule: "a run is non-trivial when >= 2 hot_reload calls overlapped in time, or a hot_reload call overlapped a load / get_or_insert / notification on another thread, or the recorded look-ups were cyclic",
            real: &["src/hot_reloading/mod.rs (Answers, HotReloader::reload, hot_reloading_thread)", "src/hot_reloading/dependencies.rs (DepsGraph::visit / topological sort)", "src/hot_reloading/paths.rs", "src/utils/private.rs (Mutex/Condvar wrappers, wait_while)", "src/cache.rs, src/anycache.rs"],
            stub: &["Mutex / Condvar / RwLock (detsim: all wake orders, spurious wake-ups)", "crossbeam-channel and Select (detsim)", "OS scheduler", "Source (in-memory)"],
            assumptions: &["liveness is stated as bounded progress: every call returns within the step budget under a schedule that is fair in its second half; the wait-for graph is reported otherwise", "callers respect the documented precondition (no AssetReadGuard held across hot_reload)"],
            runs: (120_000, 4_000_000),
        }
    }
    fn generate(&self, g: &mut SplitMix, k: &mut SplitMix, _tier: Tier) -> (Knobs, Value) {
        let mut knobs = Knobs::draw(k);
        knobs.max_steps = 60_000;
        let nl = g.below(4) as usize;
        let cyclic = g.chance(1, 3);
        let looks: Vec<Vec<usize>> = (0..nl)
            .map(|i| {
                (0..g.below(3))
                    .map(|_| {
                        if g.chance(1, 3) {
                            100 + g.below(3) as usize
                        } else if cyclic {
                            g.below(nl as u64) as usize
                        } else if i > 0 {
                            g.below(i as u64) as usize
                        } else {
                            100
                        }
                    })
                    .collect()
            })
            .collect();
        let ncallers = 1 + g.below(4) as usize;
        let nothers = g.below(3) as usize;
        let mut threads: Vec<Vec<Op>> = vec![];
        for _ in 0..ncallers {
            threads.push(
                (0..1 + g.below(5))
                    .map(|_| if g.chance(4, 5) { Op::HotReload } else { Op::LoadLeaf(g.below(3) as usize) })
                    .collect(),
            );
        }
        for _ in 0..nothers {
            threads.push(
                (0..1 + g.below(6))
                    .map(|_| match g.below(10) {
                        0 | 1 => Op::LoadLeaf(g.below(3) as usize),
                        2 => Op::LoadLook(g.below(nl.max(1) as u64) as usize),
                        3 => Op::Insert(g.below(4) as usize),
                        4 => Op::EditLeaf(g.below(3) as usize),
                        5 => Op::EditLook(g.below(nl.max(1) as u64) as usize),
                        6 | 7 => Op::NotifyLeaf(g.below(3) as usize),
                        8 => {
                            if g.chance(1, 3) {
                                Op::DropSender
                            } else {
                                Op::NotifyLook(g.below(nl.max(1) as u64) as usize)
                            }
                        }
                        _ => Op::NotifyBurst(2 + g.below(6) as usize),
                    })
                    .collect(),
            );
        }
        if nl > 0 && g.chance(1, 20) {
            let t = g.below(threads.len() as u64) as usize;
            let at = g.below(threads[t].len() as u64 + 1) as usize;
            threads[t].insert(at, Op::EditLookBig(g.below(nl as u64) as usize, 260 + g.below(80) as usize));
            threads[t].insert(at + 1, Op::HotReload);
        }
        if nl > 0 && g.chance(1, 6) {
            let t = g.below(threads.len() as u64) as usize;
            let at = g.below(threads[t].len() as u64 + 1) as usize;
            threads[t].insert(at, Op::EditLookPanic(g.below(nl as u64) as usize, g.below(3) as u8));
            threads[t].insert(at + 1, Op::HotReload);
        }
        let preload = (0..nl).filter(|_| g.chance(3, 4)).collect();
        (knobs, serde_json::to_value(Work { looks, preload, threads, static_mode: g.chance(1, 5) }).unwrap())
    }
    fn execute(&self, case: &Case) -> Outcome {
        let w: Work = serde_json::from_value(case.work.clone()).unwrap();
        let shape = fnv(case.work.to_string().as_bytes());
        let cyc = has_cycle(&w.looks) && !w.preload.is_empty();
        let nt = shared(false);
        let nt2 = nt.clone();
        let cfg = case.knobs.to_config(case.seed, case.tape.clone());
        reset_run();
        let w2 = w.clone();
        let r = detsim::run(cfg, move || scenario(w2, nt2));
        let nontrivial = *nt.lock().unwrap() || cyc;
        outcome_from(r, nontrivial, shape, |f| match f {
            detsim::Failure::Deadlock(d) => {
                // classify by who waits where
                let rel = d.split(" | ").find(|t| t.contains("assets_hot_reload")).map(|t| if t.contains("@condvar") { "reloader@condvar" } else if t.contains("@select") { "reloader@select" } else if t.contains("Finished") || t.contains("Panicked") { "reloader-dead" } else { "reloader@other" }).unwrap_or("no-reloader");
                let callers = d.split(" | ").filter(|t| t.contains(":h") && t.contains("@condvar")).count();
                format!("C08/deadlock/{rel}/callers-waiting={}", if callers >= 2 { ">=2".to_string() } else { callers.to_string() })
            }
            f => {
                let r = f.rule();
                if r.starts_with("C08/") {
                    r
                } else {
                    format!("C08/{r}")
                }
            }
        })
    }
    fn shrink(&self, work: &Value) -> Vec<Value> {
        let w: Work = serde_json::from_value(work.clone()).unwrap();
        let mut out = vec![];
        for t in 0..w.threads.len() {
            if w.threads.len() > 1 {
                let mut x = w.clone();
                x.threads.remove(t);
                out.push(x);
            }
            for i in 0..w.threads[t].len() {
                let mut x = w.clone();
                x.threads[t].remove(i);
                out.push(x);
            }
        }
        if !w.looks.is_empty() {
            let mut x = w.clone();
            x.looks.clear();
            x.preload.clear();
            for th in x.threads.iter_mut() {
                th.retain(|o| !matches!(o, Op::LoadLook(_) | Op::EditLook(_) | Op::NotifyLook(_)));
            }
            out.push(x);
        }
        for i in 0..w.looks.len() {
            for j in 0..w.looks[i].len() {
                let mut x = w.clone();
                x.looks[i].remove(j);
                out.push(x);
            }
        }
        out.into_iter().map(|x| serde_json::to_value(x).unwrap()).collect()
    }
}

fn scenario(w: Work, nt: Shared<bool>) {
    let mut tree = Tree::default();
    for i in 0..3 {
        tree.put(&format!("k{i}"), "a", format!("v0-{i}").as_bytes());
    }
    for (i, peers) in w.looks.iter().enumerate() {
        tree.put(&format!("q{i}"), "lk", lk_text(peers).as_bytes());
    }
    if w.threads.iter().flatten().any(|o| matches!(o, Op::EditLookBig(..))) {
        for j in 0..340 {
            tree.put(&format!("big{j}"), "a", b"big");
        }
    }
    let src = SimSource::new(tree, HotMode::Custom, 1);
    // (leaked in static mode: enhance_hot_reloading needs 'static; the runtime unwinds the reloader at the end of the run)
    let cache: &'static AssetCache<SimSource> = Box::leak(Box::new(AssetCache::with_source(src.clone())));
    // preload in two rounds so that mutual look-ups see each other
    for round in 0..2 {
        for &i in &w.preload {
            if round == 0 {
                let _ = cache.load::<Look>(&format!("q{i}"));
            }
        }
        if round == 0 && has_cycle(&w.looks) {
            // make the recorded look-ups effective: a first pass refreshes them all
            for &i in &w.preload {
                src.notify(file_entry(&format!("q{i}"), "lk"));
            }
            detsim::count("reach.cyclic_lookups_notified");
            cache.hot_reload();
        }
    }
    if w.static_mode {
        cache.enhance_hot_reloading();
        detsim::count("reach.hot_reload_after_enhance");
    }
    let calls: Shared<Vec<(usize, u64, u64)>> = shared(vec![]);
    let others: Shared<Vec<(usize, u64, u64)>> = shared(vec![]);
    {
        let (cache, src) = (cache, &src);
        let looks = &w.looks;
        detsim::thread::scope(|s| {
            for (t, ops) in w.threads.iter().enumerate() {
                let (calls, others) = (calls.clone(), others.clone());
                s.spawn(&format!("h{t}"), move || {
                    let mut ver = 1000 * (t as u64 + 1);
                    for op in ops {
                        let a = detsim::seq();
                        match op {
                            Op::HotReload => cache.hot_reload(),
                            Op::LoadLeaf(k) => {
                                let _ = cache.load::<LA>(&format!("k{k}"));
                            }
                            Op::LoadLook(i) => {
                                // (the content may make the load panic: it unwinds to this caller, which goes on)
                                let _ = detsim::reraise_abort(std::panic::catch_unwind(std::panic::AssertUnwindSafe(|| {
                                    let _ = cache.load::<Look>(&format!("q{i}"));
                                })));
                            }
                            Op::Insert(k) => {
                                let _ = cache.get_or_insert::<TV>(&format!("ins{k}"), TV { n: *k as u64, t: Tracked::new("ins") });
                            }
                            Op::EditLeaf(k) => {
                                ver += 1;
                                src.tree(|tr| tr.put(&format!("k{k}"), "a", format!("v{ver}").as_bytes()));
                            }
                            Op::EditLook(i) => {
                                if let Some(p) = looks.get(*i) {
                                    let mut p = p.clone();
                                    p.reverse();
                                    src.tree(|tr| tr.put(&format!("q{i}"), "lk", lk_text(&p).as_bytes()));
                                }
                            }
                            Op::NotifyLeaf(k) => {
                                src.notify(file_entry(&format!("k{k}"), "a"));
                            }
                            Op::NotifyLook(i) => {
                                src.notify(file_entry(&format!("q{i}"), "lk"));
                            }
                            Op::EditLookBig(i, n) => {
                                let text = (0..*n).map(|j| format!("leaf:big{j}")).collect::<Vec<_>>().join(" ");
                                src.tree(|tr| tr.put(&format!("q{i}"), "lk", text.as_bytes()));
                                src.notify(file_entry(&format!("q{i}"), "lk"));
                                detsim::count("reach.reload_loading_hundreds_of_new_assets");
                            }
                            Op::EditLookPanic(i, kind) => {
                                let text = format!("leaf:k0 {}", ["panic:fmt", "panic:str", "panic:any"][*kind as usize % 3]);
                                src.tree(|tr| tr.put(&format!("q{i}"), "lk", text.as_bytes()));
                                src.notify(file_entry(&format!("q{i}"), "lk"));
                            }
                            Op::DropSender => {
                                src.drop_sender();
                                detsim::count("fault.source_dropped_its_sender");
                            }
                            Op::NotifyBurst(n) => {
                                let es = (0..*n).map(|j| if j % 2 == 0 { file_entry(&format!("k{}", j % 3), "a") } else { file_entry(&format!("q{}", j % 4), "lk") }).collect();
                                src.notify_many(es);
                                detsim::count("fault.notification_burst");
                            }
                        }
                        let b = detsim::seq();
                        if *op == Op::HotReload {
                            calls.lock().unwrap().push((t, a, b));
                        } else {
                            others.lock().unwrap().push((t, a, b));
                        }
                    }
                });
            }
        });
    }
    // every call was released by the answer to its own request: injective matching call -> pass_end with invoke < pass_end < return
    let calls = calls.lock().unwrap().clone();
    let others = others.lock().unwrap().clone();
    let overlap_calls = calls.iter().any(|c| calls.iter().any(|d| d.0 != c.0 && d.1 < c.2 && c.1 < d.2));
    let overlap_other = calls.iter().any(|c| others.iter().any(|d| d.0 != c.0 && d.1 < c.2 && c.1 < d.2));
    if overlap_calls {
        detsim::count("reach.concurrent_hot_reload_calls");
    }
    *nt.lock().unwrap() = overlap_calls || overlap_other;
    // a last call after everything settled still returns
    cache.hot_reload();
    if !w.static_mode {
        match_passes(&calls);
    }
}

/// `calls`: (thread, invoke seq, return seq). Uses the pass_end probes recorded by hook H6.
pub fn match_passes(calls: &[(usize, u64, u64)]) {
    let ends = detsim::probes_labelled("pass_end");
    let mut cs: Vec<(usize, u64, u64)> = calls.to_vec();
    cs.sort_by_key(|c| c.2);
    let mut used = vec![false; ends.len()];
    for c in &cs {
        let m = (0..ends.len()).find(|&i| !used[i] && ends[i].seq > c.1 && ends[i].seq < c.2);
        match m {
            Some(i) => used[i] = true,
            None => detsim::fail("C08/returned-without-own-pass", format!("hot_reload call of t{} [{}..{}] cannot be matched to an update pass of its own that ended inside the call; pass ends at {:?}, calls {:?}", c.0, c.1, c.2, ends.iter().map(|e| e.seq).collect::<Vec<_>>(), cs)),
        }
    }
}
