//! C18 — ReloadId bookkeeping is a monotone maximum, atomically.
use crate::common::*;
use crate::lin;
use assets_manager::{AtomicReloadId, ReloadId};
use detsim::SplitMix;
use serde::{Deserialize, Serialize};
use serde_json::Value;
use std::sync::Arc;

/// `ReloadId` has no public constructor; it is a newtype over `usize`. The conversion is validated
/// against its `Debug` output at start-up (harness error, not a verdict, if the layout ever changes).
pub fn rid(n: usize) -> ReloadId {
    assert_eq!(std::mem::size_of::<ReloadId>(), std::mem::size_of::<usize>());
    unsafe { std::mem::transmute::<usize, ReloadId>(n) }
}
pub fn rid_num(id: ReloadId) -> usize {
    let s = format!("{id:?}");
    s.trim_start_matches("ReloadId(").trim_end_matches(')').parse().expect("ReloadId debug format")
}
pub fn validate_rid() {
    for n in [0usize, 1, 2, 77, 1 << 40] {
        assert_eq!(rid_num(rid(n)), n, "ReloadId layout assumption broken");
    }
    assert_eq!(rid(0), ReloadId::NEVER);
}

#[derive(Clone, Debug, Serialize, Deserialize, PartialEq, Eq, Hash)]
pub enum Op {
    Update(usize),
    FetchMax(usize),
    Swap(usize),
    Store(usize),
    Load,
}
#[derive(Clone, Debug, PartialEq, Eq)]
pub enum Res {
    Bool(bool),
    Id(usize),
    Unit,
}
#[derive(Clone, Debug, Serialize, Deserialize)]
pub struct Work {
    pub init: usize,
    pub threads: Vec<Vec<Op>>,
    /// single-threaded sequence for the plain `ReloadId::update`
    pub plain: Vec<usize>,
}

#[derive(Clone, Hash, PartialEq, Eq)]
struct Model(usize);
impl lin::SeqModel for Model {
    type Op = Op;
    type Res = Res;
    fn apply(&mut self, op: &Op) -> Res {
        match *op {
            Op::Update(n) => {
                let old = self.0;
                self.0 = old.max(n);
                Res::Bool(n > old)
            }
            Op::FetchMax(n) => {
                let old = self.0;
                self.0 = old.max(n);
                Res::Id(old)
            }
            Op::Swap(n) => {
                let old = self.0;
                self.0 = n;
                Res::Id(old)
            }
            Op::Store(n) => {
                self.0 = n;
                Res::Unit
            }
            Op::Load => Res::Id(self.0),
        }
    }
}

pub struct C18;
impl Property for C18 {
    fn id(&self) -> &'static str {
        "C18"
    }
    fn info(&self) -> PropInfo {
        PropInfo {
            level: "exploration",
            rule: "a run is non-trivial when >= 2 threads operated on the id and at least one update/fetch_max raced with another operation (overlapping invoke/return intervals)",
            real: &["src/entry.rs: ReloadId, AtomicReloadId (real std atomics)"],
            stub: &["OS scheduler (detsim baton; scheduling points in front of every atomic operation, hook H5)"],
            assumptions: &["Engine A is sequentially consistent and an atomic RMW is indivisible; weak-memory effects and non-atomic replacements are covered by the Miri engine (miri/ c18)"],
            runs: (350_000, 10_000_000),
        }
    }
    fn generate(&self, g: &mut SplitMix, k: &mut SplitMix, _tier: Tier) -> (Knobs, Value) {
        let mut knobs = Knobs::draw(k);
        knobs.atomic_mask = detsim::AT_RELOAD;
        let nthreads = 2 + g.below(3) as usize;
        let range = 1 + g.below(6) as usize; // small range: ties and repeats
        let updates_only = g.chance(1, 2);
        let threads = (0..nthreads)
            .map(|_| {
                (0..1 + g.below(4))
                    .map(|_| {
                        let n = g.below(range as u64 + 1) as usize;
                        if updates_only {
                            if g.chance(3, 4) {
                                Op::Update(n)
                            } else {
                                Op::FetchMax(n)
                            }
                        } else {
                            match g.below(8) {
                                0 | 1 | 2 => Op::Update(n),
                                3 | 4 => Op::FetchMax(n),
                                5 => Op::Swap(n),
                                6 => Op::Store(n),
                                _ => Op::Load,
                            }
                        }
                    })
                    .collect()
            })
            .collect();
        let plain = (0..g.below(8)).map(|_| g.below(5) as usize).collect();
        let w = Work { init: if g.chance(1, 2) { 0 } else { g.below(3) as usize }, threads, plain };
        (knobs, serde_json::to_value(w).unwrap())
    }
    fn execute(&self, case: &Case) -> Outcome {
        let w: Work = serde_json::from_value(case.work.clone()).unwrap();
        let shape = fnv(case.work.to_string().as_bytes());
        let raced = shared(false);
        let raced2 = raced.clone();
        let cfg = case.knobs.to_config(case.seed, case.tape.clone());
        let r = detsim::run(cfg, move || {
            // plain ReloadId::update against the definition
            let mut cur = ReloadId::NEVER;
            let mut m = 0usize;
            for &n in &w.plain {
                let newer = cur.update(rid(n));
                let exp = n > m;
                m = m.max(n);
                detsim::check(newer == exp && rid_num(cur) == m, "C18/plain-update", || format!("ReloadId::update({n}) on {} returned {newer}, value now {cur:?}, expected {exp}/{m}", m));
                detsim::check(rid(n) >= ReloadId::NEVER, "C18/never-least", || format!("{n} < NEVER"));
            }
            let a = Arc::new(AtomicReloadId::with_value(rid(w.init)));
            let hist: Shared<Vec<lin::Event<Op, Res>>> = shared(vec![]);
            let hs: Vec<_> = w
                .threads
                .iter()
                .enumerate()
                .map(|(t, ops)| {
                    let (a, ops, hist) = (a.clone(), ops.clone(), hist.clone());
                    detsim::thread::spawn_named(format!("u{t}"), move || {
                        for op in ops {
                            let inv = detsim::seq();
                            let res = match op {
                                Op::Update(n) => Res::Bool(a.update(rid(n))),
                                Op::FetchMax(n) => Res::Id(rid_num(a.fetch_max(rid(n)))),
                                Op::Swap(n) => Res::Id(rid_num(a.swap(rid(n)))),
                                Op::Store(n) => {
                                    a.store(rid(n));
                                    Res::Unit
                                }
                                Op::Load => Res::Id(rid_num(a.load())),
                            };
                            let ret = detsim::seq();
                            hist.lock().unwrap().push(lin::Event { thread: t, inv, ret, op, res });
                        }
                    })
                })
                .collect();
            for h in hs {
                let _ = h.join();
            }
            let hist = hist.lock().unwrap().clone();
            // overlap = some pair of operations of different threads with intersecting intervals
            let overlap = hist.iter().any(|e| hist.iter().any(|f| f.thread != e.thread && f.inv < e.ret && e.inv < f.ret && matches!(e.op, Op::Update(_) | Op::FetchMax(_))));
            *raced2.lock().unwrap() = overlap;
            let fin = rid_num(a.load());
            let mut h2 = hist.clone();
            let s = detsim::seq();
            h2.push(lin::Event { thread: 99, inv: s, ret: s + 1, op: Op::Load, res: Res::Id(fin) });
            if let Err(e) = lin::check(Model(w.init), &h2) {
                detsim::fail("C18/not-linearizable", format!("history not linearizable against max-model (init {}): {e}", w.init));
            }
            // direct statement for monotone-only histories: final = max offered, one `true` per distinct growth
            if hist.iter().all(|e| matches!(e.op, Op::Update(_) | Op::FetchMax(_) | Op::Load)) {
                let mx = hist.iter().filter_map(|e| match e.op { Op::Update(n) | Op::FetchMax(n) => Some(n), _ => None }).max().unwrap_or(0).max(w.init);
                detsim::check(fin == mx, "C18/final-not-max", || format!("final {fin} != max offered {mx}"));
                let mut winners: Vec<usize> = hist.iter().filter_map(|e| match (&e.op, &e.res) { (Op::Update(n), Res::Bool(true)) => Some(*n), (Op::FetchMax(n), Res::Id(old)) if n > old => Some(*n), _ => None }).collect();
                winners.sort();
                let before = winners.len();
                winners.dedup();
                detsim::check(before == winners.len(), "C18/growth-reported-twice", || format!("a growth was reported to two callers: {hist:?}"));
                detsim::check(mx == w.init || winners.contains(&mx), "C18/growth-lost", || format!("max {mx} reached but nobody was told: {hist:?}"));
            }
        });
        let nontrivial = *raced.lock().unwrap();
        outcome_from(r, nontrivial, shape, |f| f.rule())
    }
    fn shrink(&self, work: &Value) -> Vec<Value> {
        let w: Work = serde_json::from_value(work.clone()).unwrap();
        let mut out = vec![];
        for t in 0..w.threads.len() {
            if w.threads.len() > 1 {
                let mut x = w.clone();
                x.threads.remove(t);
                out.push(x);
            }
            for i in 0..w.threads[t].len() {
                let mut x = w.clone();
                x.threads[t].remove(i);
                out.push(x);
            }
        }
        if !w.plain.is_empty() {
            let mut x = w.clone();
            x.plain.clear();
            out.push(x);
        }
        out.into_iter().map(|x| serde_json::to_value(x).unwrap()).collect()
    }
}
