//! C03 — a load returns what the source holds: extension order, defaults, errors.
use crate::common::*;
use crate::hist::*;
use crate::recipe::*;
use crate::with_ty;
use crate::world::*;
use detsim::SplitMix;
use serde::{Deserialize, Serialize};
use serde_json::Value;

#[derive(Clone, Debug, Serialize, Deserialize)]
pub struct Work {
    pub tree: Tree,
    pub variant: u8,
    pub front: FrontKind,
    pub ops: Vec<HOp>,
    /// (id, bytes) stored as `id.txt` and loaded through the library's built-in String / SharedString / Box<str> assets
    #[serde(default)]
    pub texts: Vec<(String, Vec<u8>)>,
}

fn content(g: &mut SplitMix, tag: &str) -> String {
    match g.below(14) {
        0 => String::new(),
        1 => format!("  \t{tag} \n"),
        2 => (*["!bad", "!bad-io typed", "!bad-nf typed"].iter().nth((tag.len() + tag.bytes().map(|b| b as usize).sum::<usize>()) % 3).unwrap()).to_string(),
        3 => "!bad but long enough to be hashed in the value".to_string(),
        // large content (hashed in the value string): 64 KiB .. 1 MiB
        4 => format!("@big:{}:{tag}", (64usize << 10) * (1 + g.below(16) as usize) + g.below(7) as usize),
        _ => tag.to_string(),
    }
}

pub struct C03;
impl Property for C03 {
    fn id(&self) -> &'static str {
        "C03"
    }
    fn info(&self) -> PropInfo {
        PropInfo {
            level: "exploration",
            rule: "a run is non-trivial when a load went past its first extension (fallback or error folding over >= 2 extensions) or a load failed and the same load succeeded after the source was repaired",
            real: &["src/asset.rs (load_from_source, default_value)", "src/error.rs (ErrorKind::or, Error)", "src/loader (Loader trait)", "src/key.rs", "src/anycache.rs (insert only after success)", "src/source/mod.rs (FileContent variants)"],
            stub: &["Source: in-memory tree whose files are present / undecodable / absent / unreadable(kind); contents empty, whitespace, large; Slice / Buffer / Owned FileContent"],
            assumptions: &["single simulated thread: what is simulated here is the faultable Source seam and the break/repair history, not interleaving (stated in DESIGN §7 C03)"],
            runs: (100_000, 3_000_000),
        }
    }
    fn generate(&self, g: &mut SplitMix, k: &mut SplitMix, _tier: Tier) -> (Knobs, Value) {
        let knobs = Knobs::draw(k);
        let u = universe();
        #[allow(unused_mut)]
        let mut tree = Tree::default();
        let exts = ["a", "b", "c", ""];
        // every subset of present / undecodable / absent / unreadable over the extension list
        for id in &u.ids {
            for ext in exts {
                match g.below(8) {
                    0 | 1 | 2 => tree.put(id, ext, content(g, &format!("{id}.{ext}")).as_bytes()),
                    3 => tree.put(id, ext, g.pick(&["!bad", "!bad-io", "!bad-nf"]).as_bytes()),
                    4 => {
                        tree.files.insert(fkey(id, ext), FileSt::Unreadable(*g.pick(&IO_KINDS)));
                    }
                    _ => {}
                }
            }
        }
        // nesting chain: x0 <- x1 <- x2 ... each compound loads the previous one with `?` and a leaf
        let depth = g.below(5) as usize;
        for i in 0..depth.min(u.ids.len()) {
            let mut r = vec![];
            if i > 0 {
                r.push(if g.chance(2, 3) { Ins::LoadQ(*g.pick(&[Ty::RA, Ty::RB, Ty::ArcRA]), u.ids[i - 1].clone()) } else { Ins::Load(Ty::RA, u.ids[i - 1].clone()) });
            }
            let lt = *g.pick(&LEAVES);
            r.push(if g.chance(1, 2) { Ins::LoadQ(lt, g.pick(&u.ids).clone()) } else { Ins::Load(lt, g.pick(&u.ids).clone()) });
            if g.chance(1, 6) {
                r.push(Ins::Fail);
            }
            tree.put(&u.ids[i], "rc", serde_json::to_string(&r).unwrap().as_bytes());
        }
        let mut ops = vec![];
        let mut ver = 0;
        for _ in 0..2 + g.below(14) {
            let ty = if g.chance(3, 4) { *g.pick(&LEAVES) } else { *g.pick(&[Ty::RA, Ty::RB, Ty::RS, Ty::ArcRA, Ty::ArcLA]) };
            let id = g.pick(&u.ids).clone();
            ver += 1;
            match g.below(10) {
                0..=4 => ops.push(HOp::Load(ty, id, g.chance(1, 3))),
                5 => ops.push(HOp::Owned(ty, id, g.chance(1, 3))),
                6 => ops.push(HOp::Contains(ty, id, false)),
                // break / repair edits
                7 => ops.push(HOp::Put(id, g.pick(&exts).to_string(), content(g, &format!("fix{ver}")))),
                8 => ops.push(if g.chance(1, 2) { HOp::Del(id, g.pick(&exts).to_string()) } else { HOp::Unreadable(id, g.pick(&exts).to_string(), *g.pick(&IO_KINDS)) }),
                _ => {
                    // repair everything the last failing load needs, then retry it
                    if let Some(HOp::Load(t2, i2, any)) = ops.iter().rev().find(|o| matches!(o, HOp::Load(..))).cloned() {
                        for e in t2.exts() {
                            ops.push(HOp::Put(i2.clone(), e.to_string(), format!("repaired{ver}")));
                        }
                        ops.push(HOp::Load(t2, i2, any));
                    }
                }
            }
        }
        let front = *g.pick(&[FrontKind::Hot, FrontKind::Cold, FrontKind::Local]);
        let pool: [&[u8]; 20] = [
            b"plain text", b"", "caf\u{e9} \u{20ac}".as_bytes(), &[0x63, 0x61, 0x66, 0xe9], &[0xff, 0xfe, 0x00], &[0xe2, 0x82], b"  padded \n", &[0xf0, 0x9f, 0x98, 0x80, 0x21],
            // for the parsing loader: numbers with every kind of surrounding whitespace, and things that are not numbers
            b"42", b" 42\n", b"\t-17\r\n", "\u{b}-17\n".as_bytes(), "\u{85}7\u{2003}".as_bytes(), "\u{3000}5\u{a0}".as_bytes(), "\u{2028}+9\u{c}".as_bytes(),
            b"4 2", b"0x10", b"99999999999999999999", b"-0", b" \n ",
        ];
        let texts: Vec<(String, Vec<u8>)> = (0..g.below(4)).map(|i| (format!("t{i}"), g.pick(&pool).to_vec())).collect();
        for (id, bytes) in &texts {
            tree.put(id, "txt", bytes);
        }
        (knobs, serde_json::to_value(Work { tree, variant: g.below(4) as u8, front, ops, texts }).unwrap())
    }
    fn execute(&self, case: &Case) -> Outcome {
        let w: Work = serde_json::from_value(case.work.clone()).unwrap();
        let shape = fnv(case.work.to_string().as_bytes());
        let cfg = case.knobs.to_config(case.seed, case.tape.clone());
        reset_run();
        let r = detsim::run(cfg, move || scenario(w));
        let c = |k: &str| r.counters.get(k).copied().unwrap_or(0) > 0;
        let nontrivial = c("reach.load_went_past_first_extension") || c("reach.load_succeeded_after_repair");
        outcome_from(r, nontrivial, shape, |f| f.rule())
    }
    fn shrink(&self, work: &Value) -> Vec<Value> {
        let w: Work = serde_json::from_value(work.clone()).unwrap();
        let mut out = vec![];
        for i in (0..w.ops.len()).rev() {
            let mut x = w.clone();
            x.ops.remove(i);
            out.push(x);
        }
        for k in w.tree.files.keys() {
            let mut x = w.clone();
            x.tree.files.remove(k);
            out.push(x);
        }
        out.into_iter().map(|x| serde_json::to_value(x).unwrap()).collect()
    }
}

fn builtin_strings(world: &World, texts: &[(String, Vec<u8>)]) {
    use assets_manager::SharedString;
    for (id, bytes) in texts {
        let valid = std::str::from_utf8(bytes).ok();
        let any = world.front.any();
        let results: [(&str, Result<String, String>); 3] = [
            ("String", any.load::<String>(id).map(|h| h.read().clone()).map_err(|e| e.id().to_string())),
            ("SharedString", any.load::<SharedString>(id).map(|h| h.read().to_string()).map_err(|e| e.id().to_string())),
            ("Box<str>", any.load::<Box<str>>(id).map(|h| h.read().to_string()).map_err(|e| e.id().to_string())),
        ];
        for (ty, r) in results {
            match (valid, r) {
                (Some(v), Ok(s)) => detsim::check(s == v, "C03/builtin-string-content", || format!("load::<{ty}>({id}) = {s:?}, the file holds {v:?}")),
                (Some(v), Err(e)) => detsim::fail("C03/builtin-string-rejected", format!("load::<{ty}>({id}) failed ({e}) although the file holds valid UTF-8 {v:?}")),
                (None, Ok(s)) => detsim::fail("C03/builtin-string-accepts-invalid-utf8", format!("load::<{ty}>({id}) = {s:?} although the stored bytes {bytes:?} are not valid UTF-8 (a decoding error is expected)")),
                (None, Err(e)) => {
                    detsim::check(e == *id, "C03/error-names-wrong-id", || format!("load::<{ty}>({id}) failed with an error naming {e}"));
                    detsim::count("reach.builtin_loader_rejected_invalid_utf8");
                }
            }
        }
    }
}

/// User-defined assets on the library's own loaders (ParseLoader, BytesLoader, StringLoader, LoadFrom).
pub struct PNum(pub i64);
impl std::str::FromStr for PNum {
    type Err = std::num::ParseIntError;
    fn from_str(s: &str) -> Result<Self, Self::Err> {
        s.parse().map(PNum)
    }
}
impl assets_manager::Asset for PNum {
    const EXTENSION: &'static str = "txt";
    type Loader = assets_manager::loader::ParseLoader;
}
pub struct PFrom(pub i64);
impl From<i64> for PFrom {
    fn from(n: i64) -> Self {
        PFrom(n)
    }
}
impl assets_manager::Asset for PFrom {
    const EXTENSION: &'static str = "txt";
    type Loader = assets_manager::loader::LoadFrom<i64, assets_manager::loader::ParseLoader>;
}
pub struct PBytes(pub Vec<u8>);
impl From<Vec<u8>> for PBytes {
    fn from(v: Vec<u8>) -> Self {
        PBytes(v)
    }
}
impl assets_manager::Asset for PBytes {
    const EXTENSION: &'static str = "txt";
    type Loader = assets_manager::loader::LoadFrom<Vec<u8>, assets_manager::loader::BytesLoader>;
}
pub struct PBox(pub Box<[u8]>);
impl From<Box<[u8]>> for PBox {
    fn from(v: Box<[u8]>) -> Self {
        PBox(v)
    }
}
impl assets_manager::Asset for PBox {
    const EXTENSION: &'static str = "txt";
    type Loader = assets_manager::loader::LoadFrom<Box<[u8]>, assets_manager::loader::BytesLoader>;
}

fn builtin_loaders(world: &World, texts: &[(String, Vec<u8>)]) {
    for (id, bytes) in texts {
        let any = world.front.any();
        // the documented behaviour of ParseLoader: UTF-8, surrounding white space (Unicode White_Space) removed, FromStr
        let expect: Option<i64> = std::str::from_utf8(bytes).ok().and_then(|s| s.trim_matches(char::is_whitespace).parse::<i64>().ok());
        let got = [("ParseLoader", any.load::<PNum>(id).map(|h| h.read().0).map_err(|e| e.id().to_string())), ("LoadFrom<i64, ParseLoader>", any.load::<PFrom>(id).map(|h| h.read().0).map_err(|e| e.id().to_string()))];
        for (ty, r) in got {
            match (expect, r) {
                (Some(v), Ok(n)) => detsim::check(n == v, "C03/parse-loader-value", || format!("{ty} on {id}: {n}, the file holds {:?} = {v}", String::from_utf8_lossy(bytes))),
                (Some(v), Err(_)) => detsim::fail("C03/parse-loader-rejected", format!("{ty} on {id} failed although the file holds {:?}, which is {v} once surrounding white space is removed", String::from_utf8_lossy(bytes))),
                (None, Ok(n)) => detsim::fail("C03/parse-loader-accepts-garbage", format!("{ty} on {id} = {n} although the file holds {bytes:?}")),
                (None, Err(e)) => detsim::check(e == *id, "C03/error-names-wrong-id", || format!("{ty} on {id} failed with an error naming {e}")),
            }
        }
        if expect.is_some() && bytes.iter().any(|b| *b >= 0x80 || *b == 0x0b) {
            detsim::count("reach.parse_loader_unicode_whitespace");
        }
        match any.load::<PBytes>(id) {
            Ok(h) => detsim::check(h.read().0 == *bytes, "C03/bytes-loader-content", || format!("BytesLoader on {id}: {:?}, the file holds {bytes:?}", h.read().0)),
            Err(e) => detsim::fail("C03/bytes-loader-rejected", format!("BytesLoader (Vec<u8>) on {id} failed: {}", e.reason())),
        }
        match any.load::<PBox>(id) {
            Ok(h) => detsim::check(*h.read().0 == bytes[..], "C03/bytes-loader-content", || format!("BytesLoader (Box<[u8]>) on {id}: {:?}, the file holds {bytes:?}", h.read().0)),
            Err(e) => detsim::fail("C03/bytes-loader-rejected", format!("BytesLoader (Box<[u8]>) on {id} failed: {}", e.reason())),
        }
    }
}

/// Error precedence through the archive sources: a type with extensions [a, b] whose `.a` member exists but cannot be
/// read (the archive's reader fails once, with a real I/O error) and whose `.b` member is absent must fail with that
/// I/O error (an I/O error is preferred over "not found"), name the id, cache nothing, and load after the fault.
fn precedence_through_archives(sel: u64) {
    use super::c04::{build_tar, build_zip, ArcOpts, FsTree, RFault, SimReader};
    use assets_manager::source::{Tar, Zip};
    use assets_manager::AssetCache;
    let mut t = FsTree::default();
    t.add_file("x", "a", b"payload of x.a, long enough to need a read".to_vec());
    t.add_file("other", "b", b"unrelated".to_vec());
    let opts = ArcOpts { order: sel | 1, dir_members: sel % 2 == 0, dot_prefix: false, gnu: true, deflate: false, extra: 0 };
    let kind = [IoKind::PermissionDenied, IoKind::Other, IoKind::TimedOut][(sel % 3) as usize];
    // one hard error while x.a is read, or a reader that hands out a few bytes per call (no error at all)
    let short = sel % 5 == 0;
    let fault = if short { RFault::Short(1 + (sel / 5 % 9) as usize) } else { RFault::HardAt((sel / 3) % 3, kind) };
    fn run<S: assets_manager::source::Source + Send + Sync + 'static>(name: &str, src: S, ctl: super::c04::ReaderCtl, kind: IoKind, short: bool) {
        ctl.opened();
        let cache = AssetCache::without_hot_reloading(src);
        match cache.load::<LAB>("x") {
            Ok(h) => {
                detsim::check(short || ctl.fired() == 0, "C03/archive-load-ignored-io-error", || format!("{name}: load::<LAB>(\"x\") succeeded although reading x.a hit an injected {kind:?}"));
                let got = h.read().0.bytes.clone();
                detsim::check(got == b"payload of x.a, long enough to need a read", "C03/loader-got-other-bytes", || format!("{name} over a reader that returns short counts: the loader was handed {:?}, x.a stores \"payload of x.a, long enough to need a read\"", String::from_utf8_lossy(&got)));
                if short {
                    detsim::count("reach.archive_load_over_short_reads");
                }
            }
            Err(e) if short => detsim::fail("C03/archive-load-fails-without-fault", format!("{name} over a reader that returns short counts (no error): load failed: {}", e.reason())),
            Err(e) => {
                detsim::check(ctl.fired() > 0, "C03/archive-load-fails-without-fault", || format!("{name}: load failed without a fault: {}", e.reason()));
                let got = e.reason().downcast_ref::<std::io::Error>().map(|x| x.kind());
                detsim::check(e.id() == "x" && got == Some(kind.to_std()), "C03/error-precedence", || format!("{name}: x.a exists but reading it failed with {:?}, x.b is absent: load::<LAB>(\"x\") must report that I/O error; it reports id {:?}, reason {:?} (io kind {got:?})", kind.to_std(), e.id(), e.reason().to_string()));
                detsim::check(!cache.contains::<LAB>("x"), "C03/failed-load-cached-something", || format!("{name}: the failed load cached x"));
                detsim::check(cache.load::<LAB>("x").is_ok(), "C03/no-success-after-repair", || format!("{name}: x does not load once the reader works again"));
                detsim::count("reach.io_error_then_absent_extension_through_archive");
            }
        }
    }
    let (r, ctl) = SimReader::with_fault(build_tar(&t, &opts), fault);
    if let Ok(tar) = Tar::from_reader(r) {
        run("tar", tar, ctl, kind, short);
    }
    let (r, ctl) = SimReader::with_fault(build_zip(&t, &opts), fault);
    if let Ok(zip) = Zip::from_reader(r) {
        run("zip", zip, ctl, kind, short);
    }
}

fn scenario(w: Work) {
    precedence_through_archives(fnv(serde_json::to_string(&w.ops).unwrap().as_bytes()) >> 8);
    let mut world = World::new(w.front, w.tree.clone(), w.variant);
    builtin_strings(&world, &w.texts);
    builtin_loaders(&world, &w.texts);
    let mut failed: Vec<(Ty, String)> = vec![];
    for (i, op) in w.ops.iter().enumerate() {
        if crate::props::c02::is_edit(op) {
            world.edit(op);
            continue;
        }
        let reads0 = world.src.reads();
        let exp = world.expected(op);
        let got = world.real(op);
        detsim::check(got == exp, "C03/load-differs-from-load-model", || format!("op {i} {op:?} on {:?}: returned {got:?}, the load model says {exp:?}", world.kind));
        if let HOp::Load(ty, id, _) = op {
            if ty.kind() == Kind::Leaf && world.src.reads() - reads0 >= 2 {
                detsim::count("reach.load_went_past_first_extension");
            }
            match &got {
                R::Err(e) => {
                    detsim::check(e.starts_with(&format!("E({id};")), "C03/error-names-wrong-id", || format!("op {i}: load of {id} failed with {e}"));
                    // a failure caches nothing
                    detsim::check(!any_contains(world.front.any(), *ty, id), "C03/failed-load-cached", || format!("op {i}: {ty:?} {id} is cached after its load failed with {e}"));
                    failed.push((*ty, id.clone()));
                    // load_expect agrees (it must panic)
                    let p = detsim::reraise_abort(std::panic::catch_unwind(std::panic::AssertUnwindSafe(|| with_ty!(*ty, T, { world.front.any().load_expect::<T>(id); }))));
                    // the retry inside load_expect is one more model step (it fails the same way, caching nothing new at top level)
                    let again = world.expected(op);
                    detsim::check(p.is_err() == matches!(again, R::Err(_) | R::Panic), "C03/load_expect-disagrees", || format!("op {i}: load_expect({id}) panicked={} but load gives {again:?}", p.is_err()));
                }
                R::Val(_) => {
                    if failed.contains(&(*ty, id.clone())) {
                        detsim::count("reach.load_succeeded_after_repair");
                        failed.retain(|x| x != &(*ty, id.clone()));
                    }
                    // byte-exactness for leaves beyond the value string: compare with the stored file directly
                    if ty.kind() == Kind::Leaf && world.src.reads() > reads0 {
                        leaf_bytes_check(&world, *ty, id, i);
                    }
                }
                _ => {}
            }
        }
    }
}

fn leaf_bytes_check(world: &World, ty: Ty, id: &str, i: usize) {
    macro_rules! chk {
        ($($t:ident),*) => { match ty { $( Ty::$t => world.front.any().get_cached::<$t>(id).map(|h| { let g = h.read(); (g.0.bytes.clone(), g.0.ext.clone(), g.0.default) }), )* _ => None } };
    }
    if let Some((bytes, ext, default)) = chk!(LA, LAB, LBC, LABC, LNone, LNoneNoDef, LDef, LE, LS) {
        if default {
            return;
        }
        let tree = world.src.snapshot();
        // the value was produced from the *first* extension that is present and decodable
        let first = ty.exts().iter().find(|e| matches!(tree.files.get(&fkey(id, e)), Some(FileSt::Data(d)) if !d.starts_with(b"!bad")));
        detsim::check(first == Some(&ext.as_str()), "C03/wrong-extension", || format!("op {i}: {ty:?} {id} was loaded from extension {ext:?}, the first loadable one is {first:?}"));
        if let Some(FileSt::Data(d)) = tree.files.get(&fkey(id, &ext)) {
            let d = &materialize(d);
            detsim::check(&bytes == d, "C03/bytes-differ", || format!("op {i}: {ty:?} {id}.{ext}: the loader received {} bytes that differ from the {} stored bytes", bytes.len(), d.len()));
        }
    }
}
