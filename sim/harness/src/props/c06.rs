//! C06 — reloads are precise and every one is reported exactly once (same scenarios as C05's graph mode; local mode only,
//! with un-notified edits and unrelated notifications; the polling-reader clause is exercised by C07's Poll operation too).
use crate::common::*;
use crate::graph;
use crate::world::reset_run;
use detsim::SplitMix;
use serde_json::Value;

pub struct C06;
impl Property for C06 {
    fn id(&self) -> &'static str {
        "C06"
    }
    fn info(&self) -> PropInfo {
        PropInfo {
            level: "exploration",
            rule: "a run is non-trivial when a barrier reloaded at least one asset while at least one other cached reloadable asset had to stay untouched, or a watcher armed before the edits reported a reload",
            real: &["src/entry.rs (reload counter, reloaded_global flag, ReloadWatcher, ReloadId)", "src/hot_reloading/paths.rs (to_reload, events for unknown entries dropped)", "src/hot_reloading/dependencies.rs (visited set, topological order)", "src/anycache.rs (reload_untyped)"],
            stub: &["channels / locks / scheduler (detsim)", "Source (in-memory); notification delivery fault layer (duplicates, batches, noise, never sent)"],
            assumptions: &["the affected set is the reverse closure over the dependency sets registered at the start of the pass (the model mirrors what each load recorded)", "runs in which a reload caches a previously absent asset are stopped at that round (counted)"],
            runs: (45_000, 1_500_000),
        }
    }
    fn generate(&self, g: &mut SplitMix, k: &mut SplitMix, _tier: Tier) -> (Knobs, Value) {
        let knobs = Knobs::draw(k);
        let helpers = g.chance(1, 3);
        let mut w = graph::generate(g, &graph::GenOpts { helpers, single_entry_rounds: false, max_rounds: 5 });
        w.static_mode = false;
        (knobs, serde_json::to_value(w).unwrap())
    }
    fn execute(&self, case: &Case) -> Outcome {
        let w: graph::GWork = serde_json::from_value(case.work.clone()).unwrap();
        let shape = fnv(case.work.to_string().as_bytes());
        let cfg = case.knobs.to_config(case.seed, case.tape.clone());
        reset_run();
        let r = detsim::run(cfg, move || graph::scenario(w));
        let c = |k: &str| r.counters.get(k).copied().unwrap_or(0) > 0;
        let nontrivial = c("reach.reload_after_notified_edit") || c("reach.watcher_saw_reload");
        outcome_from(r, nontrivial, shape, |f| f.rule())
    }
    fn shrink(&self, work: &Value) -> Vec<Value> {
        let w: graph::GWork = serde_json::from_value(work.clone()).unwrap();
        graph::shrink(&w).into_iter().map(|x| serde_json::to_value(x).unwrap()).collect()
    }
}
