//! C04 — every source shows the same tree: FileSystem, Zip, Tar, Embedded.
use crate::common::*;
use crate::world::IoKind;
use assets_manager::source::{DirEntry, Embedded, FileSystem, RawEmbedded, Source, Tar, Zip};
use detsim::SplitMix;
use serde::{Deserialize, Serialize};
use serde_json::Value;
use std::collections::{BTreeMap, BTreeSet};
use std::io::{self, Read, Seek, SeekFrom, Write};
use std::path::{Path, PathBuf};
use std::sync::atomic::{AtomicU64, Ordering};
use std::sync::{Arc, Mutex};

#[allow(dead_code)]
#[path = "/repo/macros/src/embedded.rs"]
mod embedded_macro;

// ------------------------------------------------------------------ the tree
#[derive(Clone, Debug, Serialize, Deserialize, Default)]
pub struct FsTree {
    /// (id, ext) -> content
    pub files: BTreeMap<String, Vec<u8>>,
    /// directory ids (every ancestor of a file is one; the root "" is implicit)
    pub dirs: BTreeSet<String>,
}
fn fk(id: &str, ext: &str) -> String {
    format!("{id}/{ext}")
}
fn unfk(k: &str) -> (&str, &str) {
    k.split_once('/').unwrap()
}
fn parent(id: &str) -> Option<&str> {
    if id.is_empty() {
        None
    } else {
        Some(id.rfind('.').map(|n| &id[..n]).unwrap_or(""))
    }
}
fn rel_path(id: &str, ext: Option<&str>) -> String {
    let mut p = id.replace('.', "/");
    if let Some(e) = ext {
        if !e.is_empty() {
            p.push('.');
            p.push_str(e);
        }
    }
    p
}
impl FsTree {
    pub fn add_file(&mut self, id: &str, ext: &str, data: Vec<u8>) {
        self.files.insert(fk(id, ext), data);
        let mut p = parent(id);
        while let Some(d) = p {
            if !d.is_empty() {
                self.dirs.insert(d.to_string());
            }
            p = parent(d);
        }
    }
    fn is_dir(&self, id: &str) -> bool {
        id.is_empty() || self.dirs.contains(id)
    }
    /// expected listing of `d`: set of (is_dir, id, ext)
    fn listing(&self, d: &str) -> Option<BTreeSet<(bool, String, String)>> {
        if !self.is_dir(d) {
            return None;
        }
        let mut s = BTreeSet::new();
        for k in self.files.keys() {
            let (id, ext) = unfk(k);
            if parent(id) == Some(d) {
                s.insert((false, id.to_string(), ext.to_string()));
            }
        }
        for x in &self.dirs {
            if parent(x) == Some(d) {
                s.insert((true, x.clone(), String::new()));
            }
        }
        Some(s)
    }
}
fn gen_tree(g: &mut SplitMix) -> FsTree {
    let mut t = FsTree::default();
    let names = ["a", "b", "c0", "x y", "é", "Ωmega", "with-dash", "UPPER", "n_1", "long_component_name_that_is_quite_long_indeed_0123456789"];
    fn fill(g: &mut SplitMix, t: &mut FsTree, dir: &str, depth: u32, names: &[&str]) {
        let n = 1 + g.below(4);
        for _ in 0..n {
            let name = g.pick(names);
            let id = if dir.is_empty() { name.to_string() } else { format!("{dir}.{name}") };
            for e in ["txt", "x", "", "ron", "tar"] {
                if g.chance(1, 3) {
                    let data: Vec<u8> = match g.below(6) {
                        0 => vec![],
                        1 => (0..g.below(300)).map(|_| g.below(256) as u8).collect(),
                        2 => vec![b'z'; 600 + g.below(3000) as usize],
                        // block and record boundaries of the archive formats (tar: 512-byte blocks, 10 KiB records; zip: 16-bit sizes)
                        3 if g.chance(1, 3) => {
                            let n = if g.chance(1, 6) { *g.pick(&[10239usize, 10240, 10241, 65535, 65536, 65537]) } else { *g.pick(&[511usize, 512, 513, 1023, 1024, 1025]) };
                            (0..n).map(|i| (i % 251) as u8).collect()
                        }
                        _ => format!("{id}.{e}").into_bytes(),
                    };
                    // a file without extension and a directory cannot share a name on a file system
                    if e.is_empty() && t.dirs.contains(&id) {
                        continue;
                    }
                    t.add_file(&id, e, data);
                }
            }
            if depth < 3 && g.chance(1, 3) && !t.files.contains_key(&fk(&id, "")) {
                t.dirs.insert(id.clone());
                if !dir.is_empty() {
                    t.dirs.insert(dir.to_string());
                }
                fill(g, t, &id, depth + 1, names);
            }
        }
    }
    fill(g, &mut t, "", 0, &names);
    t
}

// ------------------------------------------------------------------ archive options and faults
#[derive(Clone, Debug, Serialize, Deserialize, PartialEq)]
pub struct ArcOpts {
    /// permutation seed of the member order (0 = directories first, sorted)
    pub order: u64,
    pub dir_members: bool,
    pub dot_prefix: bool,
    pub gnu: bool,
    pub deflate: bool,
    /// bit 0: file members two or more levels deep are spelt with a detour (`a/b/zz/../f.txt`);
    /// bit 1: on the file system some files and one top-level directory are symbolic links to things outside the root
    #[serde(default)]
    pub extra: u8,
}
#[derive(Clone, Copy, Debug, Serialize, Deserialize, PartialEq)]
pub enum RFault {
    None,
    /// reads return at most n bytes
    Short(usize),
    /// every k-th read fails with Interrupted once
    Eintr(u64),
    /// the k-th read/seek after open fails hard
    HardAt(u64, IoKind),
    /// the k-th read/seek during open fails hard
    HardAtOpen(u64, IoKind),
}
#[derive(Clone, Debug, Serialize, Deserialize)]
pub struct Work {
    pub tree: FsTree,
    pub opts: ArcOpts,
    pub fault: RFault,
    pub threads: usize,
    /// extra probes: (id, ext) pairs that may or may not exist
    pub probes: Vec<(String, String)>,
}

struct Plan {
    fault: RFault,
    ops: AtomicU64,
    opened: std::sync::atomic::AtomicBool,
    fired: AtomicU64,
}
/// In-memory reader: clone = independent cursor over the same bytes; every read / seek is a scheduling point.
#[derive(Clone)]
pub struct SimReader {
    data: Arc<Vec<u8>>,
    pos: u64,
    plan: Arc<Plan>,
}
/// Handle on the fault plan of a reader made with `SimReader::with_fault`.
#[derive(Clone)]
pub struct ReaderCtl(Arc<Plan>);
impl ReaderCtl {
    /// the archive is open: `HardAt` / `Short` / `Eintr` count operations from now on
    pub fn opened(&self) {
        self.0.opened.store(true, Ordering::Relaxed);
        self.0.ops.store(0, Ordering::Relaxed);
    }
    pub fn fired(&self) -> u64 {
        self.0.fired.load(Ordering::Relaxed)
    }
}
impl SimReader {
    pub fn with_fault(bytes: Vec<u8>, fault: RFault) -> (SimReader, ReaderCtl) {
        let plan = Arc::new(Plan { fault, ops: AtomicU64::new(0), opened: false.into(), fired: AtomicU64::new(0) });
        (SimReader { data: Arc::new(bytes), pos: 0, plan: plan.clone() }, ReaderCtl(plan))
    }
    fn tick(&self, what: &str) -> io::Result<()> {
        detsim::yield_point("reader.io");
        let k = self.plan.ops.fetch_add(1, Ordering::Relaxed);
        let opened = self.plan.opened.load(Ordering::Relaxed);
        match self.plan.fault {
            RFault::HardAt(n, kind) if opened && k == n => {
                self.plan.fired.fetch_add(1, Ordering::Relaxed);
                detsim::count("fault.reader_hard_error");
                Err(kind.err(what))
            }
            RFault::HardAtOpen(n, kind) if !opened && k == n => {
                self.plan.fired.fetch_add(1, Ordering::Relaxed);
                detsim::count("fault.reader_hard_error_at_open");
                Err(kind.err(what))
            }
            RFault::Eintr(n) if what == "read" && n > 0 && k % n == n - 1 => {
                self.plan.fired.fetch_add(1, Ordering::Relaxed);
                detsim::count("fault.reader_eintr");
                Err(io::Error::new(io::ErrorKind::Interrupted, "injected EINTR"))
            }
            _ => Ok(()),
        }
    }
}
impl Read for SimReader {
    fn read(&mut self, buf: &mut [u8]) -> io::Result<usize> {
        self.tick("read")?;
        let start = (self.pos as usize).min(self.data.len());
        let mut n = buf.len().min(self.data.len() - start);
        if let RFault::Short(m) = self.plan.fault {
            if n > m.max(1) {
                n = m.max(1);
                self.plan.fired.fetch_add(1, Ordering::Relaxed);
                detsim::count("fault.reader_short_read");
            }
        }
        buf[..n].copy_from_slice(&self.data[start..start + n]);
        self.pos += n as u64;
        Ok(n)
    }
}
impl Seek for SimReader {
    fn seek(&mut self, to: SeekFrom) -> io::Result<u64> {
        self.tick("seek")?;
        let new = match to {
            SeekFrom::Start(n) => n as i128,
            SeekFrom::End(d) => self.data.len() as i128 + d as i128,
            SeekFrom::Current(d) => self.pos as i128 + d as i128,
        };
        if new < 0 {
            return Err(io::Error::new(io::ErrorKind::InvalidInput, "seek before start"));
        }
        self.pos = new as u64;
        Ok(self.pos)
    }
}

fn members(t: &FsTree, o: &ArcOpts) -> Vec<(bool, String)> {
    // (is_dir, relative path); directories first in sorted order, then files; then permuted
    let mut v: Vec<(bool, String)> = vec![];
    if o.dir_members {
        for d in &t.dirs {
            v.push((true, rel_path(d, None)));
        }
    }
    for k in t.files.keys() {
        let (id, ext) = unfk(k);
        let mut path = rel_path(id, Some(ext));
        if o.extra & 1 != 0 && path.matches('/').count() >= 2 && fnv(k.as_bytes()) % 3 == 0 {
            let cut = path.rfind('/').unwrap();
            path = format!("{}/zz/..{}", &path[..cut], &path[cut..]);
        }
        v.push((false, format!("{}\u{0}{}", path, k)));
    }
    if o.order != 0 {
        let seed = o.order;
        v.sort_by_key(|(d, p)| detsim::mix(seed, fnv(format!("{d}{p}").as_bytes())));
    }
    v
}
/// `tar::Builder::append_data` normalises a leading "./" away; real archives (`tar -cf x.tar .`) have it. The member name is
/// written into the header by hand for names that fit the plain 100-byte field.
fn append_dot_prefixed(b: &mut tar::Builder<Vec<u8>>, h: &mut tar::Header, path: &str, data: &[u8]) -> bool {
    append_raw(b, h, &format!("./{path}"), data, "reach.tar_dot_prefixed_member")
}
/// Writes `name` into the header as it is (the builder refuses or rewrites `./` and `..`).
fn append_raw(b: &mut tar::Builder<Vec<u8>>, h: &mut tar::Header, name: &str, data: &[u8], probe: &'static str) -> bool {
    if name.len() > 99 || h.set_path("placeholder").is_err() {
        return false;
    }
    {
        let old = h.as_old_mut();
        old.name = [0; 100];
        old.name[..name.len()].copy_from_slice(name.as_bytes());
    }
    h.set_cksum();
    b.append(h, data).unwrap();
    detsim::count(probe);
    true
}
pub fn build_tar(t: &FsTree, o: &ArcOpts) -> Vec<u8> {
    let mut b = tar::Builder::new(Vec::new());
    for (is_dir, p) in members(t, o) {
        let mut h = if o.gnu { tar::Header::new_gnu() } else { tar::Header::new_ustar() };
        h.set_mode(0o644);
        if is_dir {
            h.set_entry_type(tar::EntryType::Directory);
            h.set_size(0);
            let path = format!("{}/", p);
            if o.dot_prefix && append_dot_prefixed(&mut b, &mut h, &path, &[]) {
            } else if b.append_data(&mut h, &path, io::empty()).is_err() {
                let mut h = tar::Header::new_gnu();
                h.set_entry_type(tar::EntryType::Directory);
                h.set_size(0);
                h.set_mode(0o755);
                b.append_data(&mut h, &path, io::empty()).unwrap();
            }
        } else {
            let (path, key) = p.split_once('\u{0}').unwrap();
            let data = &t.files[key];
            h.set_size(data.len() as u64);
            let path = path.to_string();
            if path.contains("/../") {
                let name = format!("{}{}", if o.dot_prefix { "./" } else { "" }, path);
                if !append_raw(&mut b, &mut h, &name, &data[..], "reach.archive_member_with_dotdot") {
                    // too long for a hand-written header: the plain spelling
                    let plain = path.replace("/zz/..", "");
                    let mut h = tar::Header::new_gnu();
                    h.set_mode(0o644);
                    h.set_size(data.len() as u64);
                    b.append_data(&mut h, &plain, &data[..]).unwrap();
                }
            } else if o.dot_prefix && append_dot_prefixed(&mut b, &mut h, &path, &data[..]) {
            } else if b.append_data(&mut h, &path, &data[..]).is_err() {
                // ustar cannot express every long path: fall back to a GNU long-name member
                let mut h = tar::Header::new_gnu();
                h.set_mode(0o644);
                h.set_size(data.len() as u64);
                b.append_data(&mut h, &path, &data[..]).unwrap();
            }
            if path.len() > 100 {
                detsim::count("reach.tar_long_name_member");
            }
        }
    }
    b.into_inner().unwrap()
}
pub fn build_zip(t: &FsTree, o: &ArcOpts) -> Vec<u8> {
    let mut w = zip::ZipWriter::new(io::Cursor::new(Vec::new()));
    let opt = zip::write::FileOptions::default().compression_method(if o.deflate { zip::CompressionMethod::Deflated } else { zip::CompressionMethod::Stored });
    for (is_dir, p) in members(t, o) {
        if is_dir {
            w.add_directory(format!("{}{}", if o.dot_prefix { "./" } else { "" }, p), opt).unwrap();
        } else {
            let (path, key) = p.split_once('\u{0}').unwrap();
            if path.contains("/../") {
                detsim::count("reach.archive_member_with_dotdot");
            }
            w.start_file(format!("{}{}", if o.dot_prefix { "./" } else { "" }, path), opt).unwrap();
            w.write_all(&t.files[key]).unwrap();
        }
    }
    w.finish().unwrap().into_inner()
}
pub fn write_dir(t: &FsTree, root: &Path) {
    write_dir_links(t, root, 0)
}
/// `links` != 0: one top-level directory is a symbolic link to a directory outside the root, and some files are
/// symbolic links to files outside the root (sources follow links: the tree they show is the same).
pub fn write_dir_links(t: &FsTree, root: &Path, links: u64) {
    std::fs::create_dir_all(root).unwrap();
    let store = root.parent().unwrap().join("store");
    if links != 0 {
        std::fs::create_dir_all(&store).unwrap();
        if let Some(d) = t.dirs.iter().filter(|d| !d.contains('.')).nth((links % 3) as usize) {
            let target = store.join(format!("dir-{}", fnv(d.as_bytes())));
            std::fs::create_dir_all(&target).unwrap();
            std::os::unix::fs::symlink(&target, root.join(rel_path(d, None))).unwrap();
            detsim::count("reach.symlinked_directory");
        }
    }
    for d in &t.dirs {
        std::fs::create_dir_all(root.join(rel_path(d, None))).unwrap();
    }
    for (k, data) in &t.files {
        let (id, ext) = unfk(k);
        let p = root.join(rel_path(id, Some(ext)));
        std::fs::create_dir_all(p.parent().unwrap()).unwrap();
        if links != 0 && detsim::mix(links, fnv(k.as_bytes())) % 4 == 0 {
            let target = store.join(format!("file-{}", fnv(k.as_bytes())));
            std::fs::write(&target, data).unwrap();
            std::os::unix::fs::symlink(&target, p).unwrap();
            detsim::count("reach.symlinked_file");
            continue;
        }
        std::fs::write(p, data).unwrap();
    }
}
/// Run the real `embed!` macro code on `root` and interpret the token stream it produces.
pub fn build_embedded(root: &Path) -> Embedded<'static> {
    let lit = format!("{:?}", root.to_str().unwrap());
    let input: embedded_macro::Input = syn::parse_str(&lit).expect("macro input");
    let ts = input.expand_dir().unwrap_or_else(|e| panic!("embed! reported {} errors", e.len()));
    let st: syn::ExprStruct = syn::parse2(ts).expect("embed! output is a struct expression");
    fn lits(e: &syn::Expr, out: &mut Vec<String>) {
        use syn::Expr::*;
        match e {
            Lit(l) => {
                if let syn::Lit::Str(s) = &l.lit {
                    out.push(s.value());
                }
            }
            Tuple(t) => t.elems.iter().for_each(|x| lits(x, out)),
            Paren(p) => lits(&p.expr, out),
            Cast(c) => lits(&c.expr, out),
            Reference(r) => lits(&r.expr, out),
            Array(a) => a.elems.iter().for_each(|x| lits(x, out)),
            Call(c) => c.args.iter().for_each(|x| lits(x, out)),
            Macro(m) => {
                if let Ok(s) = m.mac.parse_body::<syn::LitStr>() {
                    out.push(s.value());
                }
            }
            Group(g) => lits(&g.expr, out),
            _ => {}
        }
    }
    fn array_of(e: &syn::Expr) -> Vec<syn::Expr> {
        match e {
            syn::Expr::Reference(r) => array_of(&r.expr),
            syn::Expr::Array(a) => a.elems.iter().cloned().collect(),
            syn::Expr::Group(g) => array_of(&g.expr),
            _ => vec![],
        }
    }
    fn leak(s: String) -> &'static str {
        Box::leak(s.into_boxed_str())
    }
    let mut files: Vec<((&'static str, &'static str), &'static [u8])> = vec![];
    let mut dirs: Vec<(&'static str, &'static [DirEntry<'static>])> = vec![];
    for f in &st.fields {
        let name = match &f.member {
            syn::Member::Named(n) => n.to_string(),
            _ => continue,
        };
        for elem in array_of(&f.expr) {
            if name == "files" {
                let mut l = vec![];
                lits(&elem, &mut l);
                assert_eq!(l.len(), 3, "files element: (id, ext), include_bytes!(path)");
                let bytes: &'static [u8] = Box::leak(std::fs::read(&l[2]).expect("embedded file").into_boxed_slice());
                files.push(((leak(l[0].clone()), leak(l[1].clone())), bytes));
            } else if name == "dirs" {
                let syn::Expr::Tuple(t) = &elem else { panic!("dirs element") };
                let mut idl = vec![];
                lits(&t.elems[0], &mut idl);
                let mut entries: Vec<DirEntry<'static>> = vec![];
                for ent in array_of(&t.elems[1]) {
                    let syn::Expr::Call(c) = &ent else { panic!("dir entry") };
                    let syn::Expr::Path(p) = &*c.func else { panic!("dir entry path") };
                    let variant = p.path.segments.last().unwrap().ident.to_string();
                    let mut l = vec![];
                    c.args.iter().for_each(|x| lits(x, &mut l));
                    entries.push(if variant == "File" { DirEntry::File(leak(l[0].clone()), leak(l[1].clone())) } else { DirEntry::Directory(leak(l[0].clone())) });
                }
                dirs.push((leak(idl[0].clone()), Box::leak(entries.into_boxed_slice())));
            }
        }
    }
    let raw = RawEmbedded { files: Box::leak(files.into_boxed_slice()), dirs: Box::leak(dirs.into_boxed_slice()) };
    Embedded::from(raw)
}

// ------------------------------------------------------------------ the comparison
#[derive(Clone, Copy, PartialEq, Eq, Debug)]
enum Strict {
    /// answers must be exactly the tree's
    Exact,
    /// a hard reader fault was injected: a call may fail, but never answers wrongly
    MayFail,
}
fn check_source(name: &str, s: &dyn Source, t: &FsTree, probes: &[(String, String)], strict: Strict, implicit_dirs: bool) {
    let empty = t.files.is_empty() && t.dirs.is_empty();
    let sig = |what: &str| if empty && (name == "tar" || name == "zip") { format!("C04/{name}/empty-archive/{what}") } else if implicit_dirs { format!("C04/{name}/implicit-directory/{what}") } else { format!("C04/{name}/{what}") };
    // every file: exact bytes; exists
    for (k, data) in &t.files {
        let (id, ext) = unfk(k);
        match s.read(id, ext) {
            Ok(c) => detsim::check(c.as_ref() == &data[..], &format!("C04/{name}/read-bytes-differ"), || format!("{name}: read({id:?},{ext:?}) returned {} bytes, the tree stores {} (first difference at {:?})", c.as_ref().len(), data.len(), c.as_ref().iter().zip(data.iter()).position(|(a, b)| a != b))),
            Err(e) => detsim::check(strict == Strict::MayFail, &format!("C04/{name}/read-fails"), || format!("{name}: read({id:?},{ext:?}) failed: {e}")),
        }
        detsim::check(s.exists(DirEntry::File(id, ext)), &format!("C04/{name}/exists-file"), || format!("{name}: exists(File({id:?},{ext:?})) is false"));
    }
    // every directory incl. the root: each direct child exactly once with the right kind, id and extension
    let mut dirs: Vec<String> = t.dirs.iter().cloned().collect();
    dirs.push(String::new());
    for d in &dirs {
        let exp = t.listing(d).unwrap();
        let mut got: Vec<(bool, String, String)> = vec![];
        let r = s.read_dir(d, &mut |e| got.push(match e {
            DirEntry::File(i, x) => (false, i.to_string(), x.to_string()),
            DirEntry::Directory(i) => (true, i.to_string(), String::new()),
        }));
        match r {
            Ok(()) => {
                let set: BTreeSet<_> = got.iter().cloned().collect();
                detsim::check(set.len() == got.len(), &sig("read_dir-duplicates"), || format!("{name}: read_dir({d:?}) lists an entry twice: {got:?}"));
                detsim::check(set == exp, &sig("read_dir"), || format!("{name}: read_dir({d:?}) = {set:?}, the tree has {exp:?}"));
            }
            Err(e) => detsim::check(false, &sig("read_dir"), || format!("{name}: read_dir({d:?}) failed: {e}; the tree has {exp:?}")),
        }
        detsim::check(s.exists(DirEntry::Directory(d)), &sig("exists"), || format!("{name}: exists(Directory({d:?})) is false"));
    }
    // absent things are reported as not found
    for (id, ext) in probes {
        let there = t.files.contains_key(&fk(id, ext));
        if !there {
            match s.read(id, ext) {
                Ok(_) => detsim::fail(&format!("C04/{name}/phantom-file"), format!("{name}: read({id:?},{ext:?}) succeeded but the tree has no such file")),
                Err(e) => detsim::check(not_found(&e, name) || strict == Strict::MayFail, &format!("C04/{name}/absent-not-notfound"), || format!("{name}: read({id:?},{ext:?}) of an absent file failed with {:?} instead of NotFound", e.kind())),
            }
            detsim::check(!s.exists(DirEntry::File(id, ext)), &format!("C04/{name}/phantom-file"), || format!("{name}: exists(File({id:?},{ext:?})) is true but the tree has no such file"));
        }
        if !t.is_dir(id) {
            let r = s.read_dir(id, &mut |_| {});
            detsim::check(matches!(&r, Err(e) if not_found(e, name)), &format!("C04/{name}/phantom-dir"), || format!("{name}: read_dir({id:?}) on something that is not a directory gave {r:?}"));
            detsim::check(!s.exists(DirEntry::Directory(id)), &format!("C04/{name}/phantom-dir"), || format!("{name}: exists(Directory({id:?})) is true but the tree has no such directory"));
        }
    }
}

/// "Reported as not found": the file system says ENOTDIR when a path component is a file; that is a not-found report too.
fn not_found(e: &io::Error, name: &str) -> bool {
    // ENOTDIR: a path component is a file; EISDIR: the path is a directory, not the file asked for
    e.kind() == io::ErrorKind::NotFound || (name == "filesystem" && matches!(format!("{:?}", e.kind()).as_str(), "NotADirectory" | "IsADirectory"))
}
const HARD_KINDS: [IoKind; 5] = [IoKind::PermissionDenied, IoKind::UnexpectedEof, IoKind::InvalidData, IoKind::TimedOut, IoKind::Other];
pub struct C04;
impl Property for C04 {
    fn id(&self) -> &'static str {
        "C04"
    }
    fn info(&self) -> PropInfo {
        PropInfo {
            level: "exploration",
            rule: "a run is non-trivial when the tree has >= 2 directory levels and >= 3 files and all four sources (FileSystem, Tar, Zip, Embedded) were built from it and queried; runs with a reader fault additionally require that the fault fired",
            real: &["src/source/{filesystem,tar,zip,embedded,mod}.rs", "src/utils/private.rs (path_of_entry, IdBuilder)", "macros/src/embedded.rs (the embed! walker, run at run time on the generated directory)", "crates tar, zip (with deflate), sync_file; the file system of the sandbox (a scratch directory per run)"],
            stub: &["archive reader: in-memory Read+Seek+Clone whose read/seek calls are scheduling points and fault points (short reads, EINTR, hard errors at open time or later)", "scheduler for 1-3 threads querying one source instance"],
            assumptions: &["the schedule dimension is thin here (readers share nothing mutable): most of the decision comes from generated trees, archive options and the reader-fault seam (stated in DESIGN §7 C04)", "names are valid (no '.' inside a component), no symbolic links"],
            runs: (36_000, 1_000_000),
        }
    }
    fn generate(&self, g: &mut SplitMix, k: &mut SplitMix, _tier: Tier) -> (Knobs, Value) {
        let mut knobs = Knobs::draw(k);
        knobs.max_steps = 3_000_000;
        let tree = gen_tree(g);
        let opts = ArcOpts { order: if g.chance(1, 3) { 0 } else { g.next() | 1 }, dir_members: g.chance(4, 5), dot_prefix: g.chance(1, 4), gnu: g.chance(2, 3), deflate: g.chance(1, 2), extra: if g.chance(1, 3) { 1 + g.below(3) as u8 } else { 0 } };
        // short reads cost one scheduling point per chunk: keep the number of chunks per run bounded
        let total: usize = tree.files.values().map(|v| v.len()).sum::<usize>() + 512 * tree.files.len();
        let min_chunk = 1 + total / 1500;
        let fault = match g.below(8) {
            0 => RFault::Short(min_chunk + g.below(7) as usize),
            1 => RFault::Eintr(2 + g.below(5)),
            // (Interrupted is not a hard error for a reader: callers are entitled to retry it; it has its own fault kind)
            2 => RFault::HardAt(g.below(40), *g.pick(&HARD_KINDS)),
            3 => RFault::HardAtOpen(g.below(12), *g.pick(&HARD_KINDS)),
            _ => RFault::None,
        };
        let mut probes: Vec<(String, String)> = vec![];
        let ids: Vec<String> = tree.files.keys().map(|k| unfk(k).0.to_string()).chain(tree.dirs.iter().cloned()).collect();
        for _ in 0..6 {
            let id = if ids.is_empty() || g.chance(1, 4) { "missing".to_string() } else { g.pick(&ids).clone() };
            let id = if g.chance(1, 4) { format!("{id}.nochild") } else { id };
            probes.push((id, g.pick(&["txt", "x", "", "zzz"]).to_string()));
        }
        (knobs, serde_json::to_value(Work { tree, opts, fault, threads: 1 + g.below(3) as usize, probes }).unwrap())
    }
    fn execute(&self, case: &Case) -> Outcome {
        let w: Work = serde_json::from_value(case.work.clone()).unwrap();
        let shape = fnv(case.work.to_string().as_bytes());
        let cfg = case.knobs.to_config(case.seed, case.tape.clone());
        crate::world::reset_run();
        let deep = w.tree.dirs.iter().any(|d| d.contains('.')) && w.tree.files.len() >= 3;
        let faulty = w.fault != RFault::None;
        let r = detsim::run(cfg, move || scenario(w));
        let fired = ["fault.reader_hard_error", "fault.reader_hard_error_at_open", "fault.reader_eintr", "fault.reader_short_read"].iter().any(|k| r.counters.get(*k).copied().unwrap_or(0) > 0);
        let nontrivial = deep && (!faulty || fired);
        outcome_from(r, nontrivial, shape, |f| f.rule())
    }
    fn shrink(&self, work: &Value) -> Vec<Value> {
        let w: Work = serde_json::from_value(work.clone()).unwrap();
        let mut out = vec![];
        for k in w.tree.files.keys() {
            let mut x = w.clone();
            x.tree.files.remove(k);
            out.push(x);
        }
        for d in w.tree.dirs.iter() {
            // a directory can go if nothing is inside
            if !w.tree.files.keys().any(|k| unfk(k).0.starts_with(&format!("{d}."))) && !w.tree.dirs.iter().any(|x| x.starts_with(&format!("{d}."))) {
                let mut x = w.clone();
                x.tree.dirs.remove(d);
                out.push(x);
            }
        }
        if w.threads > 1 {
            let mut x = w.clone();
            x.threads = 1;
            out.push(x);
        }
        if w.fault != RFault::None {
            let mut x = w.clone();
            x.fault = RFault::None;
            out.push(x);
        }
        if !w.probes.is_empty() {
            let mut x = w.clone();
            x.probes.clear();
            out.push(x);
        }
        for (k, v) in &w.tree.files {
            if v.len() > 8 {
                let mut x = w.clone();
                x.tree.files.insert(k.clone(), v[..v.len() / 2].to_vec());
                out.push(x);
            }
        }
        out.into_iter().map(|x| serde_json::to_value(x).unwrap()).collect()
    }
}

static DIRNO: AtomicU64 = AtomicU64::new(0);
pub fn scratch() -> PathBuf {
    let base = scratch_base();
    base.join(format!("simcheck-c04-{}-{}", std::process::id(), DIRNO.fetch_add(1, Ordering::Relaxed)))
}
pub struct RmOnDrop(pub PathBuf);
impl Drop for RmOnDrop {
    fn drop(&mut self) {
        let _ = std::fs::remove_dir_all(&self.0);
    }
}

fn scenario(w: Work) {
    let dir = scratch();
    let _rm = RmOnDrop(dir.clone());
    let root = dir.join("root");
    write_dir_links(&w.tree, &root, if w.opts.extra & 2 != 0 { w.opts.order | 1 } else { 0 });
    let implicit = !w.opts.dir_members;
    let t = &w.tree;
    // 1. the file system itself and 4. the embedded form produced by the macro's walker
    let fs = FileSystem::new(&root).expect("FileSystem::new");
    check_source("filesystem", &fs, t, &w.probes, Strict::Exact, false);
    let emb = build_embedded(&root);
    check_source("embedded", &emb, t, &w.probes, Strict::Exact, false);
    // 2./3. archives, in memory behind the faultable reader and file-backed
    let t_arch: FsTree = if implicit {
        let mut x = FsTree::default();
        for (k, v) in &t.files {
            let (id, ext) = unfk(k);
            x.add_file(id, ext, v.clone());
        }
        x
    } else {
        t.clone()
    };
    let t = &t_arch;
    let tar_bytes = build_tar(t, &w.opts);
    let zip_bytes = build_zip(t, &w.opts);
    std::fs::write(dir.join("t.tar"), &tar_bytes).unwrap();
    std::fs::write(dir.join("t.zip"), &zip_bytes).unwrap();
    let tar_file = Tar::open(dir.join("t.tar")).expect("Tar::open");
    check_source("tar", &tar_file, t, &w.probes, Strict::Exact, implicit);
    let zip_file = Zip::open(dir.join("t.zip")).expect("Zip::open");
    check_source("zip", &zip_file, t, &w.probes, Strict::Exact, implicit);
    for (name, bytes) in [("tar", tar_bytes), ("zip", zip_bytes)] {
        let plan = Arc::new(Plan { fault: w.fault, ops: AtomicU64::new(0), opened: false.into(), fired: AtomicU64::new(0) });
        let reader = SimReader { data: Arc::new(bytes), pos: 0, plan: plan.clone() };
        let at_open = matches!(w.fault, RFault::HardAtOpen(..) | RFault::Eintr(_));
        let src: Box<dyn Source + Sync> = if name == "tar" {
            match Tar::from_reader(reader) {
                Ok(s) => Box::new(s),
                Err(e) => {
                    detsim::check(at_open && plan.fired.load(Ordering::Relaxed) > 0, "C04/tar/open-fails", || format!("Tar::from_reader failed without an injected open-time fault: {e}"));
                    continue;
                }
            }
        } else {
            match Zip::from_reader(reader) {
                Ok(s) => Box::new(s),
                Err(e) => {
                    detsim::check(at_open && plan.fired.load(Ordering::Relaxed) > 0, "C04/zip/open-fails", || format!("Zip::from_reader failed without an injected open-time fault: {e}"));
                    continue;
                }
            }
        };
        if matches!(w.fault, RFault::HardAtOpen(..)) && plan.fired.load(Ordering::Relaxed) > 0 {
            detsim::fail(&format!("C04/{name}/open-ignored-error"), format!("{name}: an I/O error at open time was swallowed, the source opened anyway"));
        }
        plan.opened.store(true, Ordering::Relaxed);
        plan.ops.store(0, Ordering::Relaxed);
        // EINTR: std's read_exact / read_to_end retry, but the tar and zip crates do not everywhere: a call may fail, never answer wrongly
        let strict = if matches!(w.fault, RFault::HardAt(..) | RFault::Eintr(_)) { Strict::MayFail } else { Strict::Exact };
        let errs: Arc<Mutex<Vec<String>>> = Default::default();
        let _ = errs;
        let src = &*src;
        let probes = &w.probes;
        detsim::thread::scope(|s| {
            for i in 0..w.threads {
                s.spawn(&format!("q{i}"), move || check_source(name, src, t, probes, strict, implicit));
            }
        });
    }
}
