use crate::common::Property;
pub mod c01;
pub mod c02;
pub mod c03;
pub mod c04;
pub mod c05;
pub mod c06;
pub mod c07;
pub mod c08;
pub mod c09;
pub mod c10;
pub mod c11;
pub mod c12;
pub mod c13;
pub mod c14;
pub mod c15;
pub mod c16;
pub mod c17;
pub mod c18;

pub fn all() -> Vec<&'static dyn Property> {
    vec![&c01::C01, &c02::C02, &c03::C03, &c04::C04, &c05::C05, &c06::C06, &c07::C07, &c08::C08, &c09::C09, &c10::C10, &c11::C11, &c12::C12, &c13::C13, &c14::C14, &c15::C15, &c16::C16, &c17::C17, &c18::C18]
}
pub fn by_id(id: &str) -> Option<&'static dyn Property> {
    all().into_iter().find(|p| p.id() == id)
}
