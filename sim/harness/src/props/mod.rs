use crate::common::Property;
pub mod c18;

pub fn all() -> Vec<&'static dyn Property> {
    vec![&c18::C18]
}
pub fn by_id(id: &str) -> Option<&'static dyn Property> {
    all().into_iter().find(|p| p.id() == id)
}
