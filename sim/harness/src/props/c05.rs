//! C05 — hot-reloading converges: cached values follow the source, transitively.
//! Mode "leaf": leaf assets only, edits + notification faults + barriers (plain: notify happens-before hot_reload; static: enhance_hot_reloading + quiescence).
//! Mode "graph": recipe compounds checked against the dependency model (see model.rs) — added on top of the same barrier machinery.
use crate::common::*;
use crate::world::*;
use assets_manager::AssetCache;
use detsim::SplitMix;
use serde::{Deserialize, Serialize};
use serde_json::Value;
use std::collections::BTreeMap;

#[derive(Clone, Debug, Serialize, Deserialize, PartialEq)]
pub enum Edit {
    /// new content for leaf k (ext a)
    Write(usize),
    Delete(usize),
    /// content that does not decode
    Break(usize),
    /// edit without any notification
    Silent(usize),
    /// notification for something nobody read
    Noise,
}
#[derive(Clone, Debug, Serialize, Deserialize, PartialEq)]
pub enum Delivery {
    Single,
    Batched,
    Duplicated,
    /// sent from a notifier thread that finishes before the barrier
    OtherThread,
}
#[derive(Clone, Debug, Serialize, Deserialize)]
pub struct Round {
    pub edits: Vec<Edit>,
    pub delivery: Delivery,
}
#[derive(Clone, Debug, Serialize, Deserialize)]
pub struct LeafWork {
    /// static mode only: an edit is notified (and received by the reloader) *before* enhance_hot_reloading is called
    #[serde(default)]
    pub edit_before_switch: Option<usize>,
    pub static_mode: bool,
    /// how the source is handed to the cache: 0 as it is, 1 Box<S>, 2 Box<dyn Source>, 3 Arc<S>, 4 &'static S
    #[serde(default)]
    pub wrapper: u8,
    pub nkeys: usize,
    pub preload: Vec<usize>,
    pub rounds: Vec<Round>,
}

pub struct C05;
impl Property for C05 {
    fn id(&self) -> &'static str {
        "C05"
    }
    fn info(&self) -> PropInfo {
        PropInfo {
            level: "exploration",
            rule: "a run is non-trivial when at least one notified edit of an entry a cached asset had read was followed by a barrier and the asset was reloaded (its reload id moved)",
            real: &["src/hot_reloading/{mod,paths,dependencies,records}.rs", "src/anycache.rs (recording, reload_untyped)", "src/asset.rs (load_and_record)", "src/entry.rs (write)"],
            stub: &["channels, Select, Mutex/Condvar, RwLock (detsim)", "Source (in-memory, versioned contents; the harness owns the EventSender)", "notification delivery (fault layer: batched, duplicated, from another thread, noise, never sent)"],
            assumptions: &["plain barrier = every notification was sent (happens-before) before hot_reload was invoked; static barrier = the simulator observes global quiescence after enhance_hot_reloading"],
            runs: (80_000, 2_500_000),
        }
    }
    fn generate(&self, g: &mut SplitMix, k: &mut SplitMix, _tier: Tier) -> (Knobs, Value) {
        let knobs = Knobs::draw(k);
        if g.chance(1, 12) {
            // a real directory behind the FileSystem source and the notify stub: C12's end-to-end history (real
            // operations, the notifications inotify sends for them, hot_reload, cached values against the directory)
            let (_, mut w) = super::c12::C12.generate(g, &mut SplitMix::new(1), _tier);
            w["end_to_end"] = serde_json::json!(true);
            return (knobs, serde_json::json!({"mode": "fs", "w": w}));
        }
        if g.chance(3, 5) {
            let mut w = crate::graph::generate(g, &crate::graph::GenOpts { helpers: false, single_entry_rounds: false, max_rounds: 4 });
            w.report_gained = true;
            return (knobs, serde_json::json!({"mode": "graph", "w": w}));
        }
        let nkeys = 1 + g.below(3) as usize;
        let rounds = (0..1 + g.below(4))
            .map(|_| Round {
                edits: (0..1 + g.below(4))
                    .map(|_| {
                        let k = g.below(nkeys as u64) as usize;
                        match g.below(10) {
                            0 | 1 | 2 | 3 | 4 => Edit::Write(k),
                            5 => Edit::Delete(k),
                            6 => Edit::Break(k),
                            7 => Edit::Silent(k),
                            _ => Edit::Noise,
                        }
                    })
                    .collect(),
                delivery: match g.below(6) {
                    0 | 1 | 2 => Delivery::Single,
                    3 => Delivery::Batched,
                    4 => Delivery::Duplicated,
                    _ => Delivery::OtherThread,
                },
            })
            .collect();
        let w = LeafWork { wrapper: if g.chance(1, 3) { 1 + g.below(4) as u8 } else { 0 }, edit_before_switch: if g.chance(1, 2) { Some(g.below(nkeys as u64) as usize) } else { None }, static_mode: g.chance(1, 3), nkeys, preload: (0..nkeys).filter(|_| g.chance(4, 5)).collect(), rounds };
        (knobs, serde_json::json!({"mode": "leaf", "w": w}))
    }
    fn execute(&self, case: &Case) -> Outcome {
        let shape = fnv(case.work.to_string().as_bytes());
        let cfg = case.knobs.to_config(case.seed, case.tape.clone());
        reset_run();
        let r = if case.work["mode"] == "fs" {
            let w: super::c12::Work = serde_json::from_value(case.work["w"].clone()).unwrap();
            detsim::run(cfg, move || super::c12::scenario(w))
        } else if case.work["mode"] == "graph" {
            let w: crate::graph::GWork = serde_json::from_value(case.work["w"].clone()).unwrap();
            detsim::run(cfg, move || crate::graph::scenario(w))
        } else {
            let w: LeafWork = serde_json::from_value(case.work["w"].clone()).unwrap();
            detsim::run(cfg, move || leaf_scenario(w))
        };
        let nontrivial = r.counters.get("reach.reload_after_notified_edit").copied().unwrap_or(0) > 0 || r.counters.get("reach.end_to_end_step").copied().unwrap_or(0) > 0;
        outcome_from(r, nontrivial, shape, |f| match f {
            detsim::Failure::Assertion(r, m) if r == "C05/stale-after-barrier" && m.contains("[plain]") => "C05/plain-barrier/stale".to_string(),
            detsim::Failure::Assertion(r, _) if r == "graph/gained-dependency-refreshed-in-same-pass" => "C05/gained-dependency-refreshed-in-same-pass".to_string(),
            detsim::Failure::Assertion(r, _) if r.starts_with("C12/end-to-end/") => r.replace("C12/end-to-end/", "C05/filesystem/"),
            f => f.rule(),
        })
    }
    fn shrink(&self, work: &Value) -> Vec<Value> {
        if work["mode"] == "fs" {
            return super::c12::C12.shrink(&work["w"]).into_iter().map(|x| serde_json::json!({"mode": "fs", "w": x})).collect();
        }
        if work["mode"] == "graph" {
            let w: crate::graph::GWork = serde_json::from_value(work["w"].clone()).unwrap();
            return crate::graph::shrink(&w).into_iter().map(|x| serde_json::json!({"mode": "graph", "w": x})).collect();
        }
        let w: LeafWork = serde_json::from_value(work["w"].clone()).unwrap();
        let mut out = vec![];
        for r in 0..w.rounds.len() {
            if w.rounds.len() > 1 {
                let mut x = w.clone();
                x.rounds.remove(r);
                out.push(x);
            }
            for e in 0..w.rounds[r].edits.len() {
                if w.rounds[r].edits.len() > 1 {
                    let mut x = w.clone();
                    x.rounds[r].edits.remove(e);
                    out.push(x);
                }
            }
            if w.rounds[r].delivery != Delivery::Single {
                let mut x = w.clone();
                x.rounds[r].delivery = Delivery::Single;
                out.push(x);
            }
        }
        for i in 0..w.preload.len() {
            let mut x = w.clone();
            x.preload.remove(i);
            out.push(x);
        }
        out.into_iter().map(|x| serde_json::json!({"mode": "leaf", "w": x})).collect()
    }
}

fn leaf_scenario(w: LeafWork) {
    let mut tree = Tree::default();
    for k in 0..w.nkeys {
        tree.put(&format!("k{k}"), "a", format!("v0-{k}").as_bytes());
    }
    tree.put("unrelated", "a", b"x");
    let src = SimSource::new(tree, HotMode::Custom, 3);
    // the cache is leaked in static mode (enhance_hot_reloading needs 'static); the runtime unwinds the reloader at the end of the run
    use assets_manager::source::Source;
    match w.wrapper {
        1 => leaf_on(w, Box::leak(Box::new(AssetCache::with_source(Box::new(src.clone())))), src),
        2 => leaf_on(w, Box::leak(Box::new(AssetCache::with_source(Box::new(src.clone()) as Box<dyn Source + Send + Sync>))), src),
        3 => leaf_on(w, Box::leak(Box::new(AssetCache::with_source(std::sync::Arc::new(src.clone())))), src),
        4 => {
            let leaked: &'static SimSource = Box::leak(Box::new(src.clone()));
            leaf_on(w, Box::leak(Box::new(AssetCache::with_source(leaked))), src)
        }
        _ => leaf_on(w, Box::leak(Box::new(AssetCache::with_source(src.clone()))), src),
    }
}

fn leaf_on<S: assets_manager::source::Source + Send + Sync + 'static>(w: LeafWork, cache: &'static AssetCache<S>, src: SimSource) {
    if w.wrapper != 0 {
        detsim::count("reach.wrapped_source");
    }
    // model: current content per key (None = absent), cached value per key
    let mut file: BTreeMap<usize, Option<String>> = (0..w.nkeys).map(|k| (k, Some(format!("v0-{k}")))).collect();
    let mut cached: BTreeMap<usize, (String, u64)> = BTreeMap::new();
    for &k in &w.preload {
        let h = cache.load::<LA>(&format!("k{k}")).expect("preload");
        cached.insert(k, (String::from_utf8(h.read().0.bytes.clone()).unwrap(), 0));
    }
    let mut ver = 0u64;
    if w.static_mode {
        if let Some(k) = w.edit_before_switch.filter(|k| cached.contains_key(k)) {
            // the change is queued by the reloader in local mode; switching to static mode must not lose it
            ver += 1;
            let c = format!("v{ver}-{k}-preswitch");
            src.tree(|t| t.put(&format!("k{k}"), "a", c.as_bytes()));
            file.insert(k, Some(c.clone()));
            src.notify(file_entry(&format!("k{k}"), "a"));
            detsim::quiesce();
            cache.enhance_hot_reloading();
            detsim::quiesce();
            let h = cache.get_cached::<LA>(&format!("k{k}")).unwrap();
            let now = String::from_utf8(h.read().0.bytes.clone()).unwrap();
            detsim::check(now == c, "C05/stale-after-barrier", || format!("[static] k{k} reads {now:?} at quiescence after enhance_hot_reloading; its change to {c:?} was notified before the switch"));
            cached.insert(k, (c, crate::props::c18::rid_num(h.last_reload_id()) as u64));
            detsim::count("reach.reload_after_notified_edit");
        } else {
            cache.enhance_hot_reloading();
            detsim::quiesce();
        }
    }
    for (ri, round) in w.rounds.iter().enumerate() {
        // edits are made after the loads returned; each produces its notification set
        let mut notes = vec![];
        let mut notified: Vec<usize> = vec![];
        for e in &round.edits {
            ver += 1;
            match e {
                Edit::Write(k) => {
                    let c = format!("v{ver}-{k}");
                    src.tree(|t| t.put(&format!("k{k}"), "a", c.as_bytes()));
                    file.insert(*k, Some(c));
                    notes.push(file_entry(&format!("k{k}"), "a"));
                    notified.push(*k);
                }
                Edit::Delete(k) => {
                    src.tree(|t| t.files.remove(&fkey(&format!("k{k}"), "a")));
                    file.insert(*k, None);
                    notes.push(file_entry(&format!("k{k}"), "a"));
                    notified.push(*k);
                }
                Edit::Break(k) => {
                    src.tree(|t| t.put(&format!("k{k}"), "a", b"!bad content"));
                    file.insert(*k, Some("!bad content".into()));
                    notes.push(file_entry(&format!("k{k}"), "a"));
                    notified.push(*k);
                }
                Edit::Silent(k) => {
                    let c = format!("v{ver}-{k}-silent");
                    src.tree(|t| t.put(&format!("k{k}"), "a", c.as_bytes()));
                    file.insert(*k, Some(c));
                    detsim::count("fault.edit_never_notified");
                }
                Edit::Noise => {
                    notes.push(file_entry("unrelated", "a"));
                    notes.push(dir_entry("nowhere"));
                    detsim::count("fault.unrelated_notification");
                }
            }
        }
        match round.delivery {
            Delivery::Single => {
                for n in notes {
                    src.notify(n);
                }
            }
            Delivery::Batched => {
                detsim::count("fault.batched_notifications");
                src.notify_many(notes);
            }
            Delivery::Duplicated => {
                detsim::count("fault.duplicated_notifications");
                for n in notes {
                    src.notify(n.clone());
                    src.notify(n);
                }
            }
            Delivery::OtherThread => {
                let s2 = src.clone();
                detsim::thread::spawn_named("notifier".into(), move || {
                    for n in notes {
                        s2.notify(n);
                    }
                })
                .join()
                .unwrap();
            }
        }
        // barrier
        let kind = if w.static_mode { "static" } else { "plain" };
        if w.static_mode {
            detsim::quiesce();
        } else {
            cache.hot_reload();
        }
        // oracle: every cached asset whose file was notified equals a fresh load from the current source;
        // a failed reload keeps the previous value; un-notified edits change nothing
        for (k, (val, rid)) in cached.iter_mut() {
            let h = cache.get_cached::<LA>(&format!("k{k}")).expect("cached asset vanished");
            let now = String::from_utf8(h.read().0.bytes.clone()).unwrap();
            let id_now = crate::props::c18::rid_num(h.last_reload_id()) as u64;
            if notified.contains(k) {
                match file[k].as_deref() {
                    Some(c) if !c.starts_with("!bad") => {
                        detsim::check(now == c, "C05/stale-after-barrier", || format!("[{kind}] round {ri}: k{k} reads {now:?} after the barrier, the source holds {c:?} and the change was notified before the barrier"));
                        // local mode: one pass per hot_reload call; static mode: one pass per delivered message
                        detsim::check(if w.static_mode { id_now > *rid } else { id_now == *rid + 1 }, "C05/reload-id", || format!("[{kind}] round {ri}: k{k} reload id {rid} -> {id_now}, expected +1"));
                        *val = c.to_string();
                        *rid = id_now;
                        detsim::count("reach.reload_after_notified_edit");
                    }
                    _ => {
                        // deleted or undecodable: the reload fails, the previous value stays
                        detsim::check(now == *val && id_now == *rid, "C05/failed-reload-changed-value", || format!("[{kind}] round {ri}: k{k} was {val:?}/{rid}, now {now:?}/{id_now} although its reload must have failed"));
                        detsim::count("reach.failed_reload_kept_old_value");
                    }
                }
            } else {
                detsim::check(now == *val && id_now == *rid, "C05/changed-without-notification", || format!("[{kind}] round {ri}: k{k} was {val:?}/{rid}, now {now:?}/{id_now} but nothing it read was notified"));
            }
        }
    }
}
