//! C15 — the reloader is quiet when idle and goes away with its cache.
use crate::common::*;
use crate::world::*;
use assets_manager::AssetCache;
use detsim::{SplitMix, Status};
use serde::{Deserialize, Serialize};
use serde_json::Value;

#[derive(Clone, Debug, Serialize, Deserialize, PartialEq)]
pub enum Use {
    Load(usize),
    Edit(usize),
    Notify(usize),
    HotReload,
    Quiet,
}
#[derive(Clone, Debug, Serialize, Deserialize, PartialEq)]
pub struct CacheLife {
    /// 0: custom in-memory source; 1: source whose make_source() is None (hot-reloading switched off by the source);
    /// 2: the FileSystem source over a scratch directory, watched through the (stub) notify back-end
    #[serde(default)]
    pub kind: u8,
    /// the source keeps the EventSender alive after the cache is gone (a custom source or a watcher usually does)
    pub sender_outlives: bool,
    /// the source drops its EventSender right after the cache was created (it will never send anything)
    #[serde(default)]
    pub sender_dropped_early: bool,
    pub uses: Vec<Use>,
    /// events sent right before the drop and never consumed by a hot_reload
    pub queued_at_drop: usize,
    pub hot_reload_before_drop: bool,
}
#[derive(Clone, Debug, Serialize, Deserialize)]
pub struct Work {
    pub caches: Vec<CacheLife>,
    /// create all caches first, then drop them in order (true), or create/use/drop one after the other
    pub overlap: bool,
}

pub struct C15;
impl Property for C15 {
    fn id(&self) -> &'static str {
        "C15"
    }
    fn info(&self) -> PropInfo {
        PropInfo {
            level: "exploration",
            rule: "a run is non-trivial when at least one cache with a running reloader was dropped (idle, right after hot_reload, or with events still queued) and the simulator then waited for global quiescence",
            real: &["src/hot_reloading/mod.rs (HotReloader::start, hot_reloading_thread loop, Answers)", "src/hot_reloading/paths.rs", "src/cache.rs (drop order of AssetCache fields)"],
            stub: &["crossbeam-channel (detsim model; Select::ready reports a disconnected channel as ready, as the real crate documents)", "OS threads and scheduler", "Source (in-memory custom source holding the EventSender)"],
            assumptions: &["'consumes no CPU' = the reloader thread is blocked in the simulator (takes no scheduling point) whenever every other thread is blocked or finished; 'stops' = its thread has finished or is blocked for good"],
            runs: (300_000, 9_000_000),
        }
    }
    fn generate(&self, g: &mut SplitMix, k: &mut SplitMix, _tier: Tier) -> (Knobs, Value) {
        let mut knobs = Knobs::draw(k);
        knobs.spin_limit = 400;
        let n = 1 + g.below(4) as usize;
        let caches = (0..n)
            .map(|_| CacheLife {
                kind: match g.below(6) {
                    0 => 1,
                    1 | 2 => 2,
                    _ => 0,
                },
                sender_outlives: g.chance(2, 3),
                sender_dropped_early: g.chance(1, 6),
                uses: (0..g.below(6))
                    .map(|_| match g.below(8) {
                        0 | 1 | 2 => Use::Load(g.below(3) as usize),
                        3 => Use::Edit(g.below(3) as usize),
                        4 => Use::Notify(g.below(3) as usize),
                        5 | 6 => Use::HotReload,
                        _ => Use::Quiet,
                    })
                    .collect(),
                queued_at_drop: if g.chance(1, 3) { 1 + g.below(3) as usize } else { 0 },
                hot_reload_before_drop: g.chance(1, 3),
            })
            .collect();
        (knobs, serde_json::to_value(Work { caches, overlap: g.chance(1, 2) }).unwrap())
    }
    fn execute(&self, case: &Case) -> Outcome {
        let w: Work = serde_json::from_value(case.work.clone()).unwrap();
        let shape = fnv(case.work.to_string().as_bytes());
        let cfg = case.knobs.to_config(case.seed, case.tape.clone());
        reset_run();
        let r = detsim::run(cfg, move || scenario(w));
        let nontrivial = r.counters.get("reach.cache_with_reloader_dropped").copied().unwrap_or(0) > 0;
        outcome_from(r, nontrivial, shape, |f| match f {
            detsim::Failure::Spin(d) if d.contains("assets_hot_reload") => "C15/reloader-spins".to_string(),
            f => f.rule(),
        })
    }
    fn shrink(&self, work: &Value) -> Vec<Value> {
        let w: Work = serde_json::from_value(work.clone()).unwrap();
        let mut out = vec![];
        for c in 0..w.caches.len() {
            if w.caches.len() > 1 {
                let mut x = w.clone();
                x.caches.remove(c);
                out.push(x);
            }
            for i in 0..w.caches[c].uses.len() {
                let mut x = w.clone();
                x.caches[c].uses.remove(i);
                out.push(x);
            }
            if w.caches[c].queued_at_drop > 0 {
                let mut x = w.clone();
                x.caches[c].queued_at_drop = 0;
                out.push(x);
            }
            if w.caches[c].hot_reload_before_drop {
                let mut x = w.clone();
                x.caches[c].hot_reload_before_drop = false;
                out.push(x);
            }
        }
        out.into_iter().map(|x| serde_json::to_value(x).unwrap()).collect()
    }
}

fn reloaders(infos: &[detsim::ThreadInfo]) -> Vec<&detsim::ThreadInfo> {
    infos.iter().filter(|t| t.name == "assets_hot_reload").collect()
}
fn check_idle(infos: &[detsim::ThreadInfo], live_caches: usize, when: &str) {
    let rs = reloaders(infos);
    let running: Vec<_> = rs.iter().filter(|t| !matches!(t.status, Status::Finished | Status::Panicked)).collect();
    for t in &running {
        detsim::check(matches!(t.status, Status::IdleBlocked | Status::Blocked), "C15/reloader-not-blocked-when-idle", || format!("{when}: reloader t{} is {:?} at global quiescence", t.id, t.status));
    }
    // a reloader that sleeps for good after its cache is gone is allowed by the property; it is only counted
    if running.len() > live_caches {
        detsim::count("reach.reloader_asleep_after_its_cache_was_dropped");
    }
}

enum Cache {
    Mem(AssetCache<SimSource>, SimSource),
    Fs(AssetCache<assets_manager::source::FileSystem>, std::path::PathBuf, usize),
}
struct Live {
    cache: Cache,
    life: CacheLife,
}
static DIRNO: std::sync::atomic::AtomicU64 = std::sync::atomic::AtomicU64::new(0);
fn deliver(widx: usize, kind: notify::EventKind, path: std::path::PathBuf) -> bool {
    detsim::thread::spawn_named("notify-backend".into(), move || notify::sim_deliver(widx, Ok(notify::Event::new(kind).add_path(path)))).join().unwrap_or(false)
}
fn modify() -> notify::EventKind {
    notify::EventKind::Modify(notify::event::ModifyKind::Data(notify::event::DataChange::Any))
}

fn make(life: &CacheLife) -> Live {
    if life.kind == 2 {
        let base = scratch_base();
        let dir = base.join(format!("simcheck-c15-{}-{}", std::process::id(), DIRNO.fetch_add(1, std::sync::atomic::Ordering::Relaxed)));
        std::fs::create_dir_all(&dir).unwrap();
        for i in 0..3 {
            std::fs::write(dir.join(format!("k{i}.a")), format!("v0-{i}")).unwrap();
        }
        let before = detsim::notify_stub::watcher_count();
        let cache = AssetCache::new(&dir).expect("AssetCache::new");
        detsim::check(detsim::notify_stub::watcher_count() == before + 1, "C15/harness", || "the FileSystem source did not register a watcher".into());
        return Live { cache: Cache::Fs(cache, dir.canonicalize().unwrap(), before), life: life.clone() };
    }
    let mut tree = Tree::default();
    for i in 0..3 {
        tree.put(&format!("k{i}"), "a", format!("v0-{i}").as_bytes());
    }
    let src = SimSource::new(tree, if life.kind == 1 { HotMode::NoMakeSource } else { HotMode::Custom }, 1);
    let threads_before = reloaders(&detsim::thread_infos()).len();
    let cache = AssetCache::with_source(src.clone());
    if life.kind == 1 {
        // a source that switches hot-reloading off is never asked to start a watcher, and gets no reloader thread
        detsim::check(src.configure_calls() == 0, "C15/watcher-started-for-source-without-hot-reloading", || format!("configure_hot_reloading was called {} time(s) on a source whose make_source() returns None", src.configure_calls()));
        detsim::check(reloaders(&detsim::thread_infos()).len() == threads_before, "C15/reloader-started-for-source-without-hot-reloading", || "a reloader thread was started for a source whose make_source() returns None".into());
        detsim::count("reach.cache_over_source_without_hot_reloading");
    }
    if life.sender_dropped_early {
        src.drop_sender();
        detsim::count("fault.source_dropped_its_sender_early");
    }
    Live { cache: Cache::Mem(cache, src), life: life.clone() }
}
fn use_it(l: &Live, ver: &mut u64) {
    for u in &l.life.uses {
        match (u, &l.cache) {
            (Use::Load(k), Cache::Mem(c, _)) => {
                let _ = c.load::<LA>(&format!("k{k}"));
            }
            (Use::Load(k), Cache::Fs(c, ..)) => {
                let _ = c.load::<LA>(&format!("k{k}"));
            }
            (Use::Edit(k), Cache::Mem(_, src)) => {
                *ver += 1;
                src.tree(|t| t.put(&format!("k{k}"), "a", format!("v{ver}").as_bytes()));
            }
            (Use::Edit(k), Cache::Fs(_, dir, _)) => {
                *ver += 1;
                std::fs::write(dir.join(format!("k{k}.a")), format!("v{ver}")).unwrap();
            }
            (Use::Notify(k), Cache::Mem(_, src)) => {
                src.notify(file_entry(&format!("k{k}"), "a"));
            }
            (Use::Notify(k), Cache::Fs(_, dir, widx)) => {
                deliver(*widx, modify(), dir.join(format!("k{k}.a")));
            }
            (Use::HotReload, Cache::Mem(c, _)) => c.hot_reload(),
            (Use::HotReload, Cache::Fs(c, ..)) => c.hot_reload(),
            (Use::Quiet, _) => {
                let infos = detsim::quiesce();
                // every reloader is blocked: idle costs nothing
                for t in reloaders(&infos) {
                    detsim::check(matches!(t.status, Status::IdleBlocked | Status::Blocked | Status::Finished), "C15/reloader-not-blocked-when-idle", || format!("quiet period: reloader t{} is {:?}", t.id, t.status));
                }
                detsim::count("reach.quiet_period_observed");
            }
        }
    }
}
fn drop_it(l: Live, live_after: usize) -> Option<SimSource> {
    let Live { cache, life } = l;
    match cache {
        Cache::Mem(cache, src) => {
            if life.hot_reload_before_drop {
                cache.hot_reload();
            }
            for i in 0..life.queued_at_drop {
                src.notify(file_entry(&format!("k{}", i % 3), "a"));
                detsim::count("reach.dropped_with_events_queued");
            }
            drop(cache);
            if life.kind != 1 {
                detsim::count("reach.cache_with_reloader_dropped");
            }
            let keep = if life.sender_outlives {
                Some(src)
            } else {
                src.drop_sender();
                drop(src);
                None
            };
            // after the drop returned: within a bounded number of its own steps the reloader has finished or sleeps for good
            let infos = detsim::quiesce();
            check_idle(&infos, live_after, "after drop(cache)");
            if let Some(src) = &keep {
                // a late notification from the source must not wake anything into a busy loop either
                src.notify(file_entry("k0", "a"));
                detsim::count("fault.notification_after_drop");
                let infos = detsim::quiesce();
                check_idle(&infos, live_after, "notification after drop(cache)");
            }
            keep
        }
        Cache::Fs(cache, dir, widx) => {
            if life.hot_reload_before_drop {
                cache.hot_reload();
            }
            for i in 0..life.queued_at_drop {
                deliver(widx, modify(), dir.join(format!("k{}.a", i % 3)));
            }
            drop(cache);
            detsim::count("reach.cache_with_reloader_dropped");
            detsim::count("reach.filesystem_cache_dropped");
            let infos = detsim::quiesce();
            check_idle(&infos, live_after, "after drop(filesystem cache)");
            // the watcher learns that nobody listens when it next reports something, whatever that is:
            // an ordinary file, or a name that maps to no asset id
            let p = if life.sender_outlives { dir.join("k0.a") } else { dir.join("notes.v2.txt") };
            std::fs::write(&p, b"late").unwrap();
            deliver(widx, modify(), p.clone());
            let alive = detsim::notify_stub::watcher_info(widx).map(|w| w.0).unwrap_or(false);
            detsim::check(!alive, "C15/watcher-outlives-cache", || format!("the cache over {dir:?} was dropped and the back-end reported a change of {p:?} afterwards, yet the filesystem watcher (its thread and handler) is still running"));
            let infos = detsim::quiesce();
            check_idle(&infos, live_after, "notification after drop(filesystem cache)");
            let _ = std::fs::remove_dir_all(&dir);
            None
        }
    }
}

fn scenario(w: Work) {
    let mut ver = 0u64;
    let mut kept = vec![];
    if w.overlap {
        let lives: Vec<Live> = w.caches.iter().map(make).collect();
        for l in &lives {
            use_it(l, &mut ver);
        }
        let infos = detsim::quiesce();
        check_idle(&infos, lives.len(), "all caches alive and idle");
        let mut remaining = lives.len();
        for l in lives {
            remaining -= 1;
            kept.push(drop_it(l, remaining));
        }
    } else {
        for life in &w.caches {
            let l = make(life);
            use_it(&l, &mut ver);
            kept.push(drop_it(l, 0));
        }
    }
    let infos = detsim::quiesce();
    check_idle(&infos, 0, "end of run");
    drop(kept);
}
