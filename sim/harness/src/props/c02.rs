//! C02 — the cache is a faithful map keyed by (id, type) for every front-end.
use crate::common::*;
use crate::hist::*;
use crate::recipe::*;
use crate::world::*;
use detsim::SplitMix;
use serde::{Deserialize, Serialize};
use serde_json::Value;

#[derive(Clone, Debug, Serialize, Deserialize)]
pub struct Work {
    pub tree: Tree,
    pub variant: u8,
    pub ops: Vec<HOp>,
    /// size knob: before operation `at`, `n` unrelated storable entries ("fill<j>") are added to every front-end, so
    /// that the tables behind the cache grow past their small-size paths; they are part of the map model like any
    /// other entry and are looked up again at the end
    #[serde(default)]
    pub fill: Option<(usize, usize)>,
    /// spelling of the ids (hist::id_suffix): plain, long, with a path separator, non-ASCII
    #[serde(default)]
    pub id_style: u8,
}

pub fn gen_ops(g: &mut SplitMix, u: &Universe, n: usize, with_storables: bool) -> Vec<HOp> {
    let mut ops = vec![];
    let mut ver = 0u64;
    for _ in 0..n {
        let mut ty = gen_ty(g);
        let mut id = gen_id(g, u, ty);
        // revisit a key used earlier half of the time: hits, removals of present keys, insert-on-existing
        if !ops.is_empty() && g.chance(1, 2) {
            if let Some((t2, i2)) = ops.iter().rev().filter_map(|o: &HOp| match o { HOp::Load(t, i, _) | HOp::Insert(t, i, _, _) | HOp::Cached(t, i, _) => Some((*t, i.clone())), _ => None }).nth(g.below(3) as usize) {
                ty = t2;
                id = i2;
            }
        }
        let any = g.chance(1, 3);
        ver += 1;
        let op = match g.below(if with_storables { 30 } else { 24 }) {
            0..=5 => HOp::Load(ty, id, any),
            6 => HOp::Owned(ty, id, any),
            7 | 8 => HOp::Cached(ty, id, any),
            9 | 10 => {
                if insertable(ty) {
                    HOp::Insert(ty, id, ver, any)
                } else {
                    HOp::Load(ty, id, any)
                }
            }
            11 | 12 => HOp::Contains(ty, id, any),
            13 | 14 => HOp::Remove(ty, id),
            15 => HOp::Take(ty, id),
            16 => {
                if g.chance(1, 3) {
                    HOp::Clear
                } else {
                    HOp::Take(ty, id)
                }
            }
            17 | 18 => HOp::Put(g.pick(&u.ids).clone(), g.pick(&["a", "b", "c", ""]).to_string(), if g.chance(1, 8) { "!bad".into() } else { format!("edit#{ver}") }),
            19 => HOp::Del(g.pick(&u.ids).clone(), g.pick(&["a", "b", "c", ""]).to_string()),
            20 | 21 => {
                let i = g.below(u.ids.len() as u64) as usize;
                HOp::PutRc(u.ids[i].clone(), gen_recipe(g, u, 2, i))
            }
            22 => HOp::Unreadable(g.pick(&u.ids).clone(), g.pick(&["a", "b"]).to_string(), *g.pick(&IO_KINDS)),
            23 => HOp::BadDir(g.pick(&u.dirs).clone(), if g.chance(1, 2) { Some(*g.pick(&IO_KINDS)) } else { None }),
            24 | 25 => HOp::InsS(*g.pick(&SKS), g.pick(&u.ids).clone(), ver, any),
            26 => HOp::GetS(*g.pick(&SKS), g.pick(&u.ids).clone(), any),
            27 => HOp::HasS(*g.pick(&SKS), g.pick(&u.ids).clone(), any),
            28 => HOp::RemS(*g.pick(&SKS), g.pick(&u.ids).clone()),
            _ => HOp::TakeS(*g.pick(&SKS), g.pick(&u.ids).clone()),
        };
        ops.push(op);
    }
    ops
}
pub fn is_edit(op: &HOp) -> bool {
    matches!(op, HOp::Put(..) | HOp::Del(..) | HOp::PutRc(..) | HOp::Unreadable(..) | HOp::BadDir(..))
}
pub fn is_mut(op: &HOp) -> bool {
    matches!(op, HOp::Remove(..) | HOp::Take(..) | HOp::Clear | HOp::RemS(..) | HOp::TakeS(..))
}

pub struct C02;
impl Property for C02 {
    fn id(&self) -> &'static str {
        "C02"
    }
    fn info(&self) -> PropInfo {
        PropInfo {
            level: "exploration",
            rule: "a run is non-trivial when its history contains at least one operation that hit an existing entry, one that created an entry, one that failed, and one of remove/take/clear on a present key (at least three of the four), counted on the hot AssetCache front-end",
            real: &["src/cache.rs", "src/local_cache.rs", "src/anycache.rs", "src/key.rs", "src/utils/private.rs", "src/asset.rs, src/dirs.rs (the loads behind each operation)"],
            stub: &["Source (in-memory tree; edits between operations)", "shard locks (detsim; uncontended here), hash seeds, shard count knob", "the reloader thread exists for the hot front-end but receives no notification"],
            assumptions: &["sequential histories executed in lock-step on AssetCache (hot), AssetCache::without_hot_reloading and LocalAssetCache, each directly and through an AnyCache view, compared operation by operation with one map model; concurrency on single keys is C01's subject"],
            runs: (80_000, 2_500_000),
        }
    }
    fn generate(&self, g: &mut SplitMix, k: &mut SplitMix, _tier: Tier) -> (Knobs, Value) {
        let knobs = Knobs::draw(k);
        let id_style = *g.pick(&[0u8, 0, 0, 0, 0, 1, 2, 3, 4, 5, 6]);
        let u = universe_styled(id_style);
        SELF_INSERT_OK.store(true, std::sync::atomic::Ordering::Relaxed);
        let tree = gen_tree(g, &u, true);
        let n = 1 + g.below(40) as usize;
        let mut ops = gen_ops(g, &u, n, true);
        SELF_INSERT_OK.store(false, std::sync::atomic::Ordering::Relaxed);
        let fill = if g.chance(1, 12) {
            let n_fill = *g.pick(&[40usize, 120, 300, 449, 513, 700, 1100, 2100]) + g.below(8) as usize;
            let at = g.below(ops.len() as u64 + 1) as usize;
            // something that must act on (or must leave alone) a large table afterwards
            for _ in 0..1 + g.below(3) {
                let j = g.below(n_fill as u64);
                let op = match g.below(5) {
                    0 | 1 => HOp::Clear,
                    2 => HOp::RemS(SK::TV, format!("fill{j}")),
                    3 => HOp::TakeS(SK::TV, format!("fill{j}")),
                    _ => HOp::InsS(SK::TV, format!("fill{j}"), 7_000_000 + j, g.chance(1, 2)),
                };
                let pos = at + g.below((ops.len() - at) as u64 + 1) as usize;
                ops.insert(pos, op);
            }
            Some((at, n_fill))
        } else {
            None
        };
        (knobs, serde_json::to_value(Work { tree, variant: g.below(4) as u8, ops, fill, id_style }).unwrap())
    }
    fn execute(&self, case: &Case) -> Outcome {
        let w: Work = serde_json::from_value(case.work.clone()).unwrap();
        let shape = fnv(case.work.to_string().as_bytes());
        let cfg = case.knobs.to_config(case.seed, case.tape.clone());
        reset_run();
        let r = detsim::run(cfg, move || scenario(w));
        let c = |k: &str| r.counters.get(k).copied().unwrap_or(0) > 0;
        let nontrivial = [c("reach.op_hit_existing"), c("reach.op_created"), c("reach.op_failed"), c("reach.removed_present")].iter().filter(|x| **x).count() >= 3;
        outcome_from(r, nontrivial, shape, |f| f.rule())
    }
    fn shrink(&self, work: &Value) -> Vec<Value> {
        let w: Work = serde_json::from_value(work.clone()).unwrap();
        let mut out = vec![];
        // drop the tail, then single operations, then files
        if let Some((at, n)) = w.fill {
            let mut x = w.clone();
            x.fill = None;
            out.push(x);
            if n > 1 {
                let mut x = w.clone();
                x.fill = Some((at, n / 2));
                out.push(x);
                let mut x = w.clone();
                x.fill = Some((at, n - 1));
                out.push(x);
            }
        }
        if w.ops.len() > 1 {
            let mut x = w.clone();
            x.ops.truncate(w.ops.len() / 2);
            out.push(x);
        }
        for i in (0..w.ops.len()).rev() {
            let mut x = w.clone();
            x.ops.remove(i);
            out.push(x);
        }
        for k in w.tree.files.keys() {
            let mut x = w.clone();
            x.tree.files.remove(k);
            out.push(x);
        }
        out.into_iter().map(|x| serde_json::to_value(x).unwrap()).collect()
    }
}

fn scenario(w: Work) {
    let u = universe_styled(w.id_style);
    if w.id_style != 0 {
        detsim::count("reach.unusual_id_spelling");
    }
    let kinds = [FrontKind::Hot, FrontKind::Cold, FrontKind::Local];
    let mut worlds: Vec<World> = kinds.iter().map(|k| World::new(*k, w.tree.clone(), w.variant)).collect();
    let fill_op = |world: &mut World, op: &HOp, what: &str| {
        let exp = world.expected(op);
        let got = if is_mut(op) { world.real_mut(op) } else { world.real(op) };
        detsim::check(got == exp, "C02/result-differs-from-map-model", || format!("{what}: {op:?} on front-end {:?}: returned {got:?}, the map model says {exp:?}", world.kind));
    };
    for (i, op) in w.ops.iter().enumerate() {
        if let Some((at, n)) = w.fill {
            if at == i {
                for world in worlds.iter_mut() {
                    for j in 0..n {
                        fill_op(world, &HOp::InsS(SK::TV, format!("fill{j}"), j as u64, j % 2 == 0), "filling");
                    }
                }
                detsim::count("reach.large_table");
            }
        }
        for (wi, world) in worlds.iter_mut().enumerate() {
            if is_edit(op) {
                world.edit(op);
                continue;
            }
            let present_before = match op {
                HOp::Load(ty, id, _) | HOp::Cached(ty, id, _) | HOp::Insert(ty, id, _, _) | HOp::Remove(ty, id) | HOp::Take(ty, id) => world.model.contains(*ty, id),
                _ => false,
            };
            let exp = world.expected(op);
            let got = if is_mut(op) { world.real_mut(op) } else { world.real(op) };
            detsim::check(got == exp, "C02/result-differs-from-map-model", || format!("op {i} {op:?} on front-end {:?}: returned {got:?}, the map model says {exp:?}", world.kind));
            if wi == 0 {
                match (&got, op) {
                    (R::Val(_), HOp::Load(..) | HOp::Cached(..) | HOp::Insert(..)) if present_before => detsim::count("reach.op_hit_existing"),
                    (R::Val(_), HOp::Load(..) | HOp::Insert(..)) => detsim::count("reach.op_created"),
                    (R::Err(_) | R::Panic, _) => detsim::count("reach.op_failed"),
                    (R::Bool(true), HOp::Remove(..)) | (R::Val(_), HOp::Take(..)) => detsim::count("reach.removed_present"),
                    (_, HOp::Clear) if !world.model.cache.is_empty() => detsim::count("reach.removed_present"),
                    _ => {}
                }
            }
            // the whole map agrees with the model (entries with other ids / types were not affected)
            if i % 4 == 3 || matches!(op, HOp::Clear) || i + 1 == w.ops.len() {
                let mut ids = u.ids.clone();
                ids.extend(u.dirs.iter().cloned());
                // (unusual spellings make more directories: "x0." lives in a directory "x0")
                ids.extend(world.model.tree.dirs.iter().filter(|d| !u.dirs.contains(*d) && !u.ids.contains(*d)).cloned());
                // filler entries named by an operation are compared here, the others by the look-ups at the end
                let named: Vec<String> = w.ops.iter().filter_map(|o| match o {
                    HOp::InsS(_, id, ..) | HOp::RemS(_, id) | HOp::TakeS(_, id) if id.starts_with("fill") => Some(id.clone()),
                    _ => None,
                }).collect();
                ids.extend(named.iter().cloned());
                let real: std::collections::BTreeMap<String, String> = world.real_contents(&ids).into_iter().map(|(k, v)| (k, v.0)).collect();
                let mut model = world.model_contents();
                model.retain(|k, _| !k.contains(" fill") || named.iter().any(|m| k.ends_with(&format!(" {m}"))));
                detsim::check(real == model, "C02/contents-differ-from-map-model", || {
                    let only_real: Vec<_> = real.iter().filter(|(k, v)| model.get(*k) != Some(*v)).collect();
                    let only_model: Vec<_> = model.iter().filter(|(k, v)| real.get(*k) != Some(*v)).collect();
                    format!("after op {i} {op:?} on {:?}: cache holds {only_real:?} where the model holds {only_model:?}", world.kind)
                });
            }
        }
    }
    if let Some((at, n)) = w.fill {
        if at <= w.ops.len() {
            for world in worlds.iter_mut() {
                if at == w.ops.len() {
                    for j in 0..n {
                        fill_op(world, &HOp::InsS(SK::TV, format!("fill{j}"), j as u64, j % 2 == 0), "filling");
                    }
                }
                for j in 0..n {
                    fill_op(world, &HOp::HasS(SK::TV, format!("fill{j}"), j % 2 == 1), "final look-up of a filler entry");
                    if j % 16 == 0 {
                        fill_op(world, &HOp::GetS(SK::TV, format!("fill{j}"), false), "final look-up of a filler entry");
                    }
                }
            }
        }
    }
}
