//! C10 — what is declared non-reloadable is never rewritten.
use crate::common::*;
use crate::hist::*;
use crate::model::Key;
use crate::props::c02::{is_edit, is_mut};
use crate::recipe::*;
use crate::world::*;
use detsim::SplitMix;
use serde::{Deserialize, Serialize};
use serde_json::Value;
use std::collections::{BTreeMap, BTreeSet};

#[derive(Clone, Debug, Serialize, Deserialize)]
pub struct Work {
    pub tree: Tree,
    pub front: FrontKind,
    pub ops: Vec<HOp>,
}

pub struct C10;
impl Property for C10 {
    fn id(&self) -> &'static str {
        "C10"
    }
    fn info(&self) -> PropInfo {
        PropInfo {
            level: "exploration",
            rule: "a run is non-trivial when a hot_reload pass ran after a notification for a file that a protected entry (get_or_insert value, opted-out type, or any entry of a reloader-less cache) maps to, while that entry was cached",
            real: &["src/entry.rs (static vs dynamic entries, Handle::get)", "src/asset.rs (load_and_record, HOT_RELOADED forwarding incl. Arc<T>)", "src/anycache.rs (get_or_insert / add_any)", "src/cache.rs (constructors, clear)", "src/hot_reloading/{mod,paths,dependencies}.rs (what the reloader is allowed to rewrite)"],
            stub: &["Source: in-memory; modes: supports hot-reloading / make_source() == None / configure_hot_reloading fails (the source keeps the EventSender in every mode and sends anyway)", "channels / locks / scheduler (detsim)"],
            assumptions: &["the insertion race between load and get_or_insert on one key is C01's scenario; here histories are sequential per cache, the reloader runs concurrently"],
            runs: (100_000, 3_000_000),
        }
    }
    fn generate(&self, g: &mut SplitMix, k: &mut SplitMix, _tier: Tier) -> (Knobs, Value) {
        let knobs = Knobs::draw(k);
        let u = universe();
        let mut tree = gen_tree(g, &u, true);
        for id in &u.ids {
            if g.chance(1, 2) {
                tree.put(id, "a", format!("{id}.a#0").as_bytes());
            }
        }
        let front = *g.pick(&[FrontKind::Hot, FrontKind::Hot, FrontKind::Hot, FrontKind::Cold, FrontKind::Local, FrontKind::Unsupported, FrontKind::ConfigFails]);
        let protected_tys = [Ty::LS, Ty::RS, Ty::ArcLS, Ty::LA, Ty::LAB, Ty::RA, Ty::ArcLA];
        let mut ops = vec![];
        let mut ver = 0u64;
        for _ in 0..3 + g.below(24) {
            ver += 1;
            let ty = if g.chance(2, 3) { *g.pick(&protected_tys) } else { gen_ty(g) };
            let id = if g.chance(2, 3) { g.pick(&u.ids[..2]).clone() } else { gen_id(g, &u, ty) };
            let id = if matches!(ty.kind(), Kind::Dir | Kind::RDir) { gen_id(g, &u, ty) } else { id };
            ops.push(match g.below(20) {
                0 | 1 | 2 => HOp::Load(ty, id, false),
                3 => HOp::Owned(ty, id, false),
                4 | 5 | 6 | 7 => {
                    if insertable(ty) {
                        HOp::Insert(ty, id, ver, g.chance(1, 3))
                    } else {
                        HOp::Load(ty, id, false)
                    }
                }
                8 => HOp::Remove(ty, id),
                9 => HOp::Take(ty, id),
                10 => {
                    if g.chance(1, 3) {
                        HOp::Clear
                    } else {
                        HOp::Cached(ty, id, false)
                    }
                }
                11 | 12 | 13 => HOp::Put(id, g.pick(&["a", "b", "rc"]).to_string(), format!("edit#{ver}")),
                14 | 15 | 16 => HOp::Notify(vec![(id.clone(), "a".into()), (id, g.pick(&["b", "rc"]).to_string())]),
                17 => HOp::InsS(*g.pick(&SKS), g.pick(&u.ids).clone(), ver, false),
                _ => HOp::HotReload,
            });
            // the typical probe: edit + notify + hot_reload of a file behind a cached key
            if g.chance(1, 6) {
                let id = g.pick(&u.ids[..2]).clone();
                ver += 1;
                ops.push(HOp::Put(id.clone(), "a".into(), format!("edit#{ver}")));
                ops.push(HOp::Notify(vec![(id, "a".into())]));
                ops.push(HOp::HotReload);
            }
        }
        // the probe for the inserter race: a compound that loads a leaf, the leaf removed from the cache, then a pass
        if g.chance(1, 6) {
            let (owner, leaf) = (u.ids[2].clone(), u.ids[g.below(2) as usize].clone());
            let recipe = serde_json::to_string(&vec![Ins::Load(Ty::LA, leaf.clone()), Ins::Val(1)]).unwrap();
            let at = g.below(ops.len() as u64 + 1) as usize;
            let seq = vec![
                HOp::Put(leaf.clone(), "a".into(), format!("leaf#{ver}")),
                HOp::Put(owner.clone(), "rc".into(), recipe),
                HOp::Load(Ty::RA, owner, false),
                HOp::Remove(Ty::LA, leaf),
                HOp::HotReload,
            ];
            for (j, o) in seq.into_iter().enumerate() {
                ops.insert(at + j, o);
            }
        }
        (knobs, serde_json::to_value(Work { tree, front, ops }).unwrap())
    }
    fn execute(&self, case: &Case) -> Outcome {
        let w: Work = serde_json::from_value(case.work.clone()).unwrap();
        let shape = fnv(case.work.to_string().as_bytes());
        let cfg = case.knobs.to_config(case.seed, case.tape.clone());
        reset_run();
        let r = detsim::run(cfg, move || scenario(w));
        let nontrivial = r.counters.get("reach.pass_after_notification_behind_protected_entry").copied().unwrap_or(0) > 0;
        outcome_from(r, nontrivial, shape, |f| f.rule())
    }
    fn shrink(&self, work: &Value) -> Vec<Value> {
        let w: Work = serde_json::from_value(work.clone()).unwrap();
        let mut out = vec![];
        if w.ops.len() > 2 {
            let mut x = w.clone();
            x.ops.truncate(w.ops.len() / 2);
            out.push(x);
        }
        for i in (0..w.ops.len()).rev() {
            let mut x = w.clone();
            x.ops.remove(i);
            out.push(x);
        }
        for k in w.tree.files.keys() {
            let mut x = w.clone();
            x.tree.files.remove(k);
            out.push(x);
        }
        out.into_iter().map(|x| serde_json::to_value(x).unwrap()).collect()
    }
}

/// Opt-out must survive every wrapper the library provides: `Arc<T>`, `OnceInitCell<T, _>`, `OnceInitCell<Option<T>, _>` of
/// a type that declares HOT_RELOADED = false are loaded from a cache with a reloader, the file is edited and notified,
/// and after hot_reload each must hold what it held, with reload id NEVER. A reloadable control proves the pass ran.
fn optout_wrappers() {
    use assets_manager::{AssetCache, OnceInitCell};
    use crate::props::c18::rid_num;
    use std::sync::Arc;
    let mut tree = Tree::default();
    tree.put("w", "a", b"v1");
    let src = SimSource::new(tree, HotMode::Custom, 3);
    let cache = AssetCache::with_source(src.clone());
    let sum = |ls: &LS| ls.0.bytes.iter().map(|b| *b as u64).sum::<u64>() + 1000 * ls.0.bytes.len() as u64;
    let plain = cache.load::<LS>("w").expect("LS");
    let arc = cache.load::<Arc<LS>>("w").expect("Arc<LS>");
    let cell = cache.load::<OnceInitCell<LS, u64>>("w").expect("OnceInitCell<LS>");
    let cell_opt = cache.load::<OnceInitCell<Option<LS>, u64>>("w").expect("OnceInitCell<Option<LS>>");
    let control = cache.load::<OnceInitCell<LA, u64>>("w").expect("OnceInitCell<LA>");
    let v_plain = sum(&plain.read());
    let v_arc = sum(&arc.read());
    let v_cell = *cell.read().get_or_init(|ls| sum(ls));
    let v_opt = *cell_opt.read().get_or_init(|ls| sum(ls.as_ref().unwrap()));
    let _ = *control.read().get_or_init(|la| la.0.bytes.len() as u64);
    src.tree(|t| t.put("w", "a", b"second version, longer"));
    src.notify(file_entry("w", "a"));
    cache.hot_reload();
    if rid_num(control.last_reload_id()) == 0 {
        // the control was not reloaded: nothing to conclude from this pass
        return;
    }
    detsim::count("reach.optout_wrappers_pass");
    let now: [(&str, Option<u64>, usize); 4] = [
        ("LS", Some(sum(&plain.read())), rid_num(plain.last_reload_id())),
        ("Arc<LS>", Some(sum(&arc.read())), rid_num(arc.last_reload_id())),
        ("OnceInitCell<LS, _>", cell.read().get().copied(), rid_num(cell.last_reload_id())),
        ("OnceInitCell<Option<LS>, _>", cell_opt.read().get().copied(), rid_num(cell_opt.last_reload_id())),
    ];
    for ((ty, v, rid), v0) in now.into_iter().zip([v_plain, v_arc, v_cell, v_opt]) {
        detsim::check(v == Some(v0) && rid == 0, "C10/opted-out-wrapper-rewritten", || format!("{ty} of a type that opts out of hot-reloading held {v0} before the edit; after notification and hot_reload it holds {v:?} with reload id {rid}"));
    }
}

fn scenario(w: Work) {
    if w.front == FrontKind::Hot {
        optout_wrappers();
    }
    let u = universe();
    let mut all_ids = u.ids.clone();
    all_ids.extend(u.dirs.iter().cloned());
    let mut world = World::new(w.front, w.tree.clone(), 3);
    let reloader_expected = w.front == FrontKind::Hot;
    // entries created by get_or_insert (protected whatever their type)
    let mut inserted: BTreeSet<Key> = BTreeSet::new();
    // keys that some load created in this cache at some time (by a caller or by a nested load of a reload): the
    // reloader knows them for good, its graph is never pruned
    let mut ever_loaded: BTreeSet<Key> = BTreeSet::new();
    // values last seen for every protected entry
    let mut pending_note: BTreeSet<String> = BTreeSet::new();
    // &T obtained with Handle::get early: must read the same value at the end
    let mut early: BTreeMap<Key, String> = BTreeMap::new();
    for (i, op) in w.ops.iter().enumerate() {
        if is_edit(op) {
            world.edit(op);
            continue;
        }
        match op {
            HOp::Notify(es) => {
                for (id, ext) in es {
                    // the source sends in every mode (a reloader-less cache must be unaffected)
                    world.src.notify(if ext == "/" { dir_entry(id) } else { file_entry(id, ext) });
                    pending_note.insert(id.clone());
                }
                continue;
            }
            HOp::HotReload => {
                let before = world.real_contents(&all_ids);
                // every other pass races with a get_or_insert of an absent key on another thread (a reload that loads
                // the same key as a nested asset may be inserting it at that moment): the reference the inserter got
                // must stay the entry of that key, and what it stored must stay what it stored
                let race_id: Option<String> = if reloader_expected {
                    // preferably a key that a cached compound loads as a nested asset (and that is absent now): that
                    // compound is notified, so that the pass loads and inserts the key while the inserter runs
                    let absent: Vec<&String> = u.ids.iter().filter(|id| !world.model.contains(Ty::LA, id)).collect();
                    let via_compound = absent.iter().filter(|id| matches!(world.model.tree.files.get(&fkey(id, "a")), Some(FileSt::Data(d)) if !d.starts_with(b"!bad"))).find_map(|id| {
                        let needle = format!("{{\"Load\":[\"LA\",\"{id}\"]}}");
                        world.model.cache.keys().filter(|k| k.0.kind() == Kind::Rec).find(|k| match world.model.tree.files.get(&fkey(&k.1, "rc")) {
                            Some(FileSt::Data(d)) => String::from_utf8_lossy(d).contains(&needle),
                            _ => false,
                        }).map(|k| ((*id).clone(), k.1.clone()))
                    });
                    match via_compound {
                        Some((id, owner)) => {
                            world.src.notify(file_entry(&owner, "rc"));
                            detsim::count("reach.pass_loads_the_key_the_inserter_wants");
                            Some(id)
                        }
                        None if i % 2 == 0 => absent.first().map(|s| (*s).clone()),
                        None => None,
                    }
                } else {
                    None
                };
                let mut raced: Option<(String, usize, String, bool)> = None;
                if let (Some(id), Front::Shared(cache)) = (&race_id, &world.front) {
                    let slot: Shared<Option<(usize, String, bool)>> = shared(None);
                    detsim::thread::scope(|s| {
                        let slot2 = slot.clone();
                        let id2 = id.clone();
                        s.spawn("inserter", move || {
                            let mine = <LA as Make>::make_show(7000 + i as u64);
                            // (start somewhere inside the pass)
                            for _ in 0..detsim::decide(6) {
                                detsim::thread::yield_now();
                            }
                            let h = cache.get_or_insert::<LA>(&id2, <LA as Make>::make(7000 + i as u64));
                            let show = h.read().show();
                            *slot2.lock().unwrap() = Some((h as *const _ as usize, show.clone(), show == mine));
                        });
                        cache.hot_reload();
                    });
                    raced = slot.lock().unwrap().clone().map(|(a, sh, m)| (id.clone(), a, sh, m));
                    detsim::count("reach.get_or_insert_races_with_a_pass");
                } else {
                    world.real(op);
                }
                if let (Some((id, addr, show, mine)), Front::Shared(cache)) = (&raced, &world.front) {
                    let now = cache.get_cached::<LA>(id).map(|h| (h as *const _ as usize, h.read().show(), crate::props::c18::rid_num(h.last_reload_id())));
                    detsim::check(now.as_ref().map(|n| n.0) == Some(*addr), "C10/reference-invalidated", || format!("op {i}: a get_or_insert::<LA>({id:?}) that ran while hot_reload was in progress returned the entry at {addr:#x}; the cache now answers {:?} for that key", now.as_ref().map(|n| format!("{:#x}", n.0))));
                    if let Some((_, show_now, rid)) = now {
                        if *mine {
                            detsim::check(show_now == *show && rid == 0, "C10/protected-entry-rewritten", || format!("op {i}: the value stored by a get_or_insert::<LA>({id:?}) racing with a pass was {show:?}; it is now {show_now:?} with reload id {rid}"));
                            inserted.insert((Ty::LA, id.clone()));
                        } else {
                            ever_loaded.insert((Ty::LA, id.clone()));
                        }
                        world.model.cache.insert((Ty::LA, id.clone()), crate::model::MEntry { show: show_now, reload: rid, dynamic: !*mine });
                    }
                }
                let after = world.real_contents(&all_ids);
                for (name, (v0, id0)) in &before {
                    let (tyname, id) = name.split_once(' ').unwrap();
                    let key: Option<Key> = ALL_TYS.iter().find(|t| format!("{t:?}") == tyname).map(|t| (*t, id.to_string()));
                    let protected = !reloader_expected || key.as_ref().map(|k| !k.0.hot() || inserted.contains(k)).unwrap_or(true);
                    let (v1, id1) = after.get(name).cloned().unwrap_or_default();
                    if protected {
                        if pending_note.contains(id) {
                            detsim::count("reach.pass_after_notification_behind_protected_entry");
                        }
                        let registered = key.as_ref().map(|k| world.model.reg.contains_key(k) || ever_loaded.contains(k)).unwrap_or(false);
                        let rule = if key.as_ref().map(|k| inserted.contains(k) && k.0.hot()).unwrap_or(false) && registered && reloader_expected { "C10/get_or_insert-value-rewritten/key-registered-by-a-load" } else { "C10/protected-entry-rewritten" };
                        detsim::check(&v1 == v0 && id1 == *id0 && id1 == 0, rule, || format!("op {i} hot_reload on {:?}: {name} must never be rewritten (get_or_insert value / opted-out type / cache without reloader) but went from {v0:?}/{id0} to {v1:?}/{id1}", w.front));
                    }
                }
                // entries that appeared during the pass were created by nested loads of reloads
                for name in after.keys().filter(|n| !before.contains_key(*n)) {
                    let (tyname, id) = name.split_once(' ').unwrap();
                    if let Some(t) = ALL_TYS.iter().find(|t| format!("{t:?}") == tyname) {
                        ever_loaded.insert((*t, id.to_string()));
                    }
                }
                world.follow_reloads(&all_ids);
                pending_note.clear();
                continue;
            }
            _ => {}
        }
        let was_absent = match op {
            HOp::Insert(ty, id, _, _) => !world.model.contains(*ty, id),
            _ => false,
        };
        let exp = world.expected(op);
        let got = if is_mut(op) { world.real_mut(op) } else { world.real(op) };
        detsim::check(got == exp, "C10/result-differs-from-map-model", || format!("op {i} {op:?} on {:?}: returned {got:?}, the model says {exp:?}", w.front));
        match op {
            HOp::Insert(ty, id, _, _) if was_absent => {
                inserted.insert((*ty, id.clone()));
            }
            HOp::Remove(ty, id) | HOp::Take(ty, id) => {
                inserted.remove(&(*ty, id.clone()));
                early.remove(&(*ty, id.clone()));
            }
            HOp::Clear => {
                inserted.clear();
                early.clear();
            }
            _ => {}
        }
        // Handle::get on the opted-out types: never panics, and the reference obtained now still reads the same at the end
        if let HOp::Load(ty, id, _) | HOp::Insert(ty, id, _, _) = op {
            if matches!(got, R::Val(_)) {
                let g: Option<String> = match ty {
                    Ty::LS => world.front.any().get_cached::<LS>(id).map(|h| h.get().0.show()),
                    Ty::RS => world.front.any().get_cached::<RS>(id).map(|h| h.get().0.show()),
                    _ => None,
                };
                if let Some(s) = g {
                    early.entry((*ty, id.clone())).or_insert(s);
                }
            }
        }
    }
    for ((ty, id), s0) in &early {
        let now: Option<String> = match ty {
            Ty::LS => world.front.any().get_cached::<LS>(id).map(|h| h.get().0.show()),
            Ty::RS => world.front.any().get_cached::<RS>(id).map(|h| h.get().0.show()),
            _ => None,
        };
        detsim::check(now.as_ref() == Some(s0), "C10/get-reference-changed", || format!("{ty:?} {id}: Handle::get read {s0:?} when the entry was created, {now:?} at the end (never removed in between)"));
    }
}
