//! C12 — filesystem notifications name the right entries (inverse of path_of).
use crate::common::*;
use assets_manager::hot_reloading::{verif, FsWatcherBuilder};
use assets_manager::source::{DirEntry, FileSystem, OwnedDirEntry};
use detsim::SplitMix;
use notify::event::{AccessKind, CreateKind, DataChange, MetadataKind, ModifyKind, RemoveKind, RenameMode};
use notify::{Event, EventKind};
use serde::{Deserialize, Serialize};
use serde_json::Value;
use std::path::{Component, Path, PathBuf};
use std::sync::atomic::{AtomicU64, Ordering};

#[derive(Clone, Copy, Debug, Serialize, Deserialize, PartialEq)]
pub enum NK {
    Any,
    CreateFile,
    CreateFolder,
    CreateAny,
    ModifyData,
    ModifyMeta,
    ModifyAny,
    RenameFrom,
    RenameTo,
    RenameBoth,
    RemoveFile,
    RemoveFolder,
    Access,
    Other,
    Error,
}
/// How the path of the notification is written.
#[derive(Clone, Copy, Debug, Serialize, Deserialize, PartialEq)]
pub enum PathForm {
    Plain,
    /// `dir/./name`
    CurDir,
    /// `dir/sub/../name` (sub need not exist)
    ParentDir,
}
#[derive(Clone, Debug, Serialize, Deserialize, PartialEq)]
pub enum Step {
    /// do the real operation on the file system, then deliver what the back-end reports for it
    CreateFile(String),
    CreateDir(String),
    Write(String),
    Rename(String, String),
    Remove(String),
    /// deliver a synthetic notification of this kind for this relative path (nothing changes on disk)
    Synthetic(NK, String, PathForm),
    /// a path outside every root
    Outside(NK),
    /// deliver before the watcher was started (must be ignored, must not break anything)
    TooEarly(String),
}
#[derive(Clone, Debug, Serialize, Deserialize)]
pub struct Work {
    /// relative paths of the initial tree; a trailing '/' marks a directory
    pub initial: Vec<String>,
    /// watch a second root: "" none, otherwise a relative directory of the first root (nested root)
    pub second_root: String,
    pub steps: Vec<Step>,
    /// how the roots are spelled when handed to the watcher: 0 as canonicalised, 1 with a trailing '/', 2 with a trailing "/."
    #[serde(default)]
    pub root_spelling: u8,
    /// end-to-end variant: no probe; a real cache over the FileSystem source, assets for files and directories, and the
    /// set of values / listings that changed after hot_reload is the observation
    #[serde(default)]
    pub end_to_end: bool,
}

fn kind_of(k: NK) -> Option<EventKind> {
    Some(match k {
        NK::Any => EventKind::Any,
        NK::CreateFile => EventKind::Create(CreateKind::File),
        NK::CreateFolder => EventKind::Create(CreateKind::Folder),
        NK::CreateAny => EventKind::Create(CreateKind::Any),
        NK::ModifyData => EventKind::Modify(ModifyKind::Data(DataChange::Any)),
        NK::ModifyMeta => EventKind::Modify(ModifyKind::Metadata(MetadataKind::Any)),
        NK::ModifyAny => EventKind::Modify(ModifyKind::Any),
        NK::RenameFrom => EventKind::Modify(ModifyKind::Name(RenameMode::From)),
        NK::RenameTo => EventKind::Modify(ModifyKind::Name(RenameMode::To)),
        NK::RenameBoth => EventKind::Modify(ModifyKind::Name(RenameMode::Both)),
        NK::RemoveFile => EventKind::Remove(RemoveKind::File),
        NK::RemoveFolder => EventKind::Remove(RemoveKind::Folder),
        NK::Access => EventKind::Access(AccessKind::Any),
        NK::Other => EventKind::Other,
        NK::Error => return None,
    })
}
/// The property's table: which paths does a notification of this kind name?
fn names_parent_too(k: NK) -> Option<bool> {
    match k {
        NK::Any | NK::ModifyData | NK::ModifyMeta | NK::ModifyAny => Some(false),
        NK::CreateFile | NK::CreateFolder | NK::CreateAny | NK::RenameFrom | NK::RenameTo | NK::RenameBoth | NK::RemoveFile | NK::RemoveFolder => Some(true),
        NK::Access | NK::Other | NK::Error => None,
    }
}

/// Independent inverse of `path_of`: the entry a path denotes under `root` (lexical normalisation of `.` and `..`).
fn entry_of(root: &Path, path: &Path, was_dir: Option<bool>) -> Option<OwnedDirEntry> {
    let rel = path.strip_prefix(root).ok()?;
    let mut comps: Vec<String> = vec![];
    for c in rel.components() {
        match c {
            Component::Normal(s) => comps.push(s.to_str()?.to_string()),
            Component::CurDir => {}
            Component::ParentDir => {
                comps.pop()?;
            }
            _ => return None,
        }
    }
    if comps.is_empty() {
        // the root directory itself
        return Some(OwnedDirEntry::Directory("".into()));
    }
    let last = comps.pop().unwrap();
    let is_dir = was_dir.unwrap_or_else(|| path.is_dir());
    let (stem, ext) = match last.rsplit_once('.') {
        Some((s, e)) if !s.is_empty() => (s.to_string(), e.to_string()),
        _ => (last.clone(), String::new()),
    };
    if stem.contains('.') || comps.iter().any(|c| c.contains('.')) {
        return None;
    }
    let mut id = comps.join(".");
    if !id.is_empty() {
        id.push('.');
    }
    id.push_str(&stem);
    Some(if is_dir { OwnedDirEntry::Directory(id.as_str().into()) } else { OwnedDirEntry::File(id.as_str().into(), ext.as_str().into()) })
}
fn show(e: &OwnedDirEntry) -> String {
    match e {
        OwnedDirEntry::File(i, x) => format!("File({i},{x})"),
        OwnedDirEntry::Directory(i) => format!("Dir({i})"),
    }
}

pub struct C12;
impl Property for C12 {
    fn id(&self) -> &'static str {
        "C12"
    }
    fn info(&self) -> PropInfo {
        PropInfo {
            level: "exploration",
            rule: "a run is non-trivial when the real handler chain received at least one create / rename / delete notification for an entry below a watched root (so that both the entry and its parent had to be named) and at least one notification that must produce nothing (outside every root, not expressible as an id, Access / Other / error); or, in the end-to-end variant, at least one real operation was followed by hot_reload and the comparison of every cached file asset and directory listing with the directory",
            real: &["src/hot_reloading/watcher.rs (FsWatcherBuilder, EventHandlerPayload, NotifyEventHandler, id_of_path)", "src/utils/private.rs (IdBuilder, extension_of, path_of_entry)", "src/source/filesystem.rs (path_of)", "notify's event types (real crate); a real scratch directory (the handler calls Path::is_dir)"],
            stub: &["notify back-end (inotify): the simulator delivers notify::Event values to the registered handler on a simulated watcher thread, for real operations done on the scratch directory and for synthetic notifications of every kind", "the receiving end of the EventSender is the probe of hook H7"],
            assumptions: &["the stub delivers, per operation, the event kinds notify 6.1.1's inotify back-end produces (create: Create(File|Folder); write: Modify(Data); rename: Modify(Name(From)) then Modify(Name(To)); delete: Remove(File|Folder))", "id <-> path round trip is a pure function of its input: exercised as generated data, not decided by scheduling"],
            runs: (150_000, 4_500_000),
        }
    }
    fn generate(&self, g: &mut SplitMix, k: &mut SplitMix, _tier: Tier) -> (Knobs, Value) {
        let knobs = Knobs::draw(k);
        let names = ["a", "b", "top", "x y", "é", "n_1"];
        let exts = ["x", "txt", "", "y"];
        let mut initial: Vec<String> = vec![];
        let mut dirs: Vec<String> = vec![String::new()];
        for _ in 0..g.below(4) {
            let parent = g.pick(&dirs).clone();
            let d = format!("{parent}{}/", g.pick(&names));
            if !initial.contains(&d) {
                initial.push(d.clone());
                dirs.push(d);
            }
        }
        for _ in 0..1 + g.below(6) {
            let e = g.pick(&exts);
            let f = format!("{}{}{}{}", g.pick(&dirs), g.pick(&names), if e.is_empty() { "" } else { "." }, e);
            if !initial.contains(&f) && !initial.contains(&format!("{f}/")) {
                initial.push(f);
            }
        }
        let second_root = if g.chance(1, 3) && dirs.len() > 1 { dirs[1 + g.below(dirs.len() as u64 - 1) as usize].trim_end_matches('/').to_string() } else { String::new() };
        let nks = [NK::Any, NK::CreateFile, NK::CreateFolder, NK::CreateAny, NK::ModifyData, NK::ModifyMeta, NK::ModifyAny, NK::RenameFrom, NK::RenameTo, NK::RenameBoth, NK::RemoveFile, NK::RemoveFolder, NK::Access, NK::Other, NK::Error];
        let mut live: Vec<String> = initial.clone();
        let mut steps = vec![];
        if g.chance(1, 4) {
            steps.push(Step::TooEarly(g.pick(&initial).clone()));
        }
        for _ in 0..2 + g.below(10) {
            let pick_dir = |g: &mut SplitMix, live: &Vec<String>| -> String {
                let ds: Vec<&String> = live.iter().filter(|p| p.ends_with('/')).collect();
                if ds.is_empty() || g.chance(1, 3) {
                    String::new()
                } else {
                    (*g.pick(&ds)).clone()
                }
            };
            let s = match g.below(12) {
                0 | 1 => {
                    let e = g.pick(&exts);
                    let f = format!("{}{}{}{}", pick_dir(g, &live), g.pick(&["new", "a", "created"]), if e.is_empty() { "" } else { "." }, e);
                    if live.contains(&f) || live.contains(&format!("{f}/")) {
                        continue;
                    }
                    live.push(f.clone());
                    Step::CreateFile(f)
                }
                2 => {
                    let d = format!("{}{}/", pick_dir(g, &live), g.pick(&["nd", "sub"]));
                    if live.contains(&d) || live.contains(&d.trim_end_matches('/').to_string()) {
                        continue;
                    }
                    live.push(d.clone());
                    Step::CreateDir(d)
                }
                3 | 4 => match live.iter().filter(|p| !p.ends_with('/')).nth(g.below(4) as usize) {
                    Some(f) => Step::Write(f.clone()),
                    None => continue,
                },
                5 => {
                    let files: Vec<String> = live.iter().filter(|p| !p.ends_with('/')).cloned().collect();
                    if files.is_empty() {
                        continue;
                    }
                    let from = g.pick(&files).clone();
                    let dir = from.rsplit_once('/').map(|x| format!("{}/", x.0)).unwrap_or_default();
                    let to = format!("{dir}renamed{}.x", g.below(3));
                    if live.contains(&to) {
                        continue;
                    }
                    live.retain(|p| p != &from);
                    live.push(to.clone());
                    Step::Rename(from, to)
                }
                6 | 7 => {
                    // remove a file, or an empty directory
                    let cands: Vec<String> = live.iter().filter(|p| !p.ends_with('/') || !live.iter().any(|q| q != *p && q.starts_with(p.as_str()))).cloned().collect();
                    if cands.is_empty() {
                        continue;
                    }
                    let p = g.pick(&cands).clone();
                    if !second_root.is_empty() && format!("{second_root}/").starts_with(p.as_str()) {
                        continue;
                    }
                    live.retain(|q| q != &p);
                    Step::Remove(p)
                }
                8 | 9 => {
                    let target = if g.chance(1, 4) { String::new() } else if g.chance(1, 4) { format!("{}bad.name.txt", pick_dir(g, &live)) } else if live.is_empty() { String::new() } else { g.pick(&live).clone() };
                    Step::Synthetic(*g.pick(&nks), target, *g.pick(&[PathForm::Plain, PathForm::Plain, PathForm::Plain, PathForm::Plain, PathForm::Plain, PathForm::Plain, PathForm::CurDir, PathForm::CurDir, PathForm::ParentDir]))
                }
                10 => Step::Outside(*g.pick(&nks)),
                _ => Step::Synthetic(*g.pick(&[NK::Access, NK::Other, NK::Error]), if live.is_empty() { String::new() } else { g.pick(&live).clone() }, PathForm::Plain),
            };
            steps.push(s);
        }
        (knobs, serde_json::to_value(Work { initial, second_root, steps, root_spelling: if g.chance(1, 3) { 1 + g.below(2) as u8 } else { 0 }, end_to_end: g.chance(1, 4) }).unwrap())
    }
    fn execute(&self, case: &Case) -> Outcome {
        let w: Work = serde_json::from_value(case.work.clone()).unwrap();
        let shape = fnv(case.work.to_string().as_bytes());
        let cfg = case.knobs.to_config(case.seed, case.tape.clone());
        crate::world::reset_run();
        let r = detsim::run(cfg, move || scenario(w));
        let c = |k: &str| r.counters.get(k).copied().unwrap_or(0) > 0;
        let nontrivial = (c("reach.entry_and_parent_expected") && c("reach.notification_that_must_produce_nothing")) || c("reach.end_to_end_step");
        outcome_from(r, nontrivial, shape, |f| f.rule())
    }
    fn shrink(&self, work: &Value) -> Vec<Value> {
        let w: Work = serde_json::from_value(work.clone()).unwrap();
        let mut out = vec![];
        for i in (0..w.steps.len()).rev() {
            // real operations depend on each other: only drop synthetic steps and trailing steps
            if matches!(w.steps[i], Step::Synthetic(..) | Step::Outside(_) | Step::TooEarly(_)) || i + 1 == w.steps.len() {
                let mut x = w.clone();
                x.steps.remove(i);
                out.push(x);
            }
        }
        if !w.second_root.is_empty() {
            let mut x = w.clone();
            x.second_root.clear();
            out.push(x);
        }
        out.into_iter().map(|x| serde_json::to_value(x).unwrap()).collect()
    }
}

static DIRNO: AtomicU64 = AtomicU64::new(0);
struct RmOnDrop(PathBuf);
impl Drop for RmOnDrop {
    fn drop(&mut self) {
        let _ = std::fs::remove_dir_all(&self.0);
    }
}
fn form(root: &Path, rel: &str, f: PathForm) -> PathBuf {
    let rel = rel.trim_end_matches('/');
    let p = root.join(rel);
    if rel.is_empty() {
        return p;
    }
    let (dir, name) = (p.parent().unwrap().to_path_buf(), p.file_name().unwrap().to_os_string());
    match f {
        PathForm::Plain => p,
        PathForm::CurDir => dir.join(".").join(name),
        PathForm::ParentDir => dir.join("ghost").join("..").join(name),
    }
}

/// File asset for the end-to-end variant: its value is the exact content; extensions "x" then "y".
pub struct FileXY(pub Vec<u8>, pub String);
pub struct RawLoader;
impl assets_manager::loader::Loader<FileXY> for RawLoader {
    fn load(content: std::borrow::Cow<[u8]>, ext: &str) -> Result<FileXY, assets_manager::BoxedError> {
        Ok(FileXY(content.to_vec(), ext.to_string()))
    }
}
impl assets_manager::Asset for FileXY {
    const EXTENSIONS: &'static [&'static str] = &["x", "y"];
    type Loader = RawLoader;
}

/// End to end: real operations on the scratch directory, the notifications inotify would send for them, hot_reload,
/// and then every cached file asset / directory listing must equal what the directory holds now.
fn end_to_end(w: &Work, root: &Path) {
    use assets_manager::AssetCache;
    let cache = AssetCache::new(root).expect("AssetCache::new");
    let widx = detsim::notify_stub::watcher_count() - 1;
    let deliver = |kind: NK, p: PathBuf| {
        let ev = Event::new(kind_of(kind).unwrap()).add_path(p);
        detsim::thread::spawn_named("notify-backend".into(), move || {
            notify::sim_deliver(widx, Ok(ev));
        })
        .join()
        .unwrap();
    };
    // what a fresh look at the directory gives
    let listing = |dir_id: &str| -> Option<Vec<String>> {
        let p = if dir_id.is_empty() { root.to_path_buf() } else { root.join(dir_id.replace('.', "/")) };
        let mut ids: Vec<String> = std::fs::read_dir(&p).ok()?.flatten().filter(|e| e.path().is_file()).filter_map(|e| {
            let name = e.file_name().to_str()?.to_string();
            let (stem, ext) = name.rsplit_once('.')?;
            if (ext == "x" || ext == "y") && !stem.contains('.') {
                Some(if dir_id.is_empty() { stem.to_string() } else { format!("{dir_id}.{stem}") })
            } else {
                None
            }
        }).collect();
        ids.sort();
        ids.dedup();
        Some(ids)
    };
    let dirs: Vec<String> = std::iter::once(String::new()).chain(w.initial.iter().filter(|p| p.ends_with('/')).map(|p| p.trim_end_matches('/').replace('/', "."))).filter(|d| !d.split('.').any(|c| c.contains(' ') && false)).collect();
    let mut loaded_dirs: Vec<String> = vec![];
    let mut loaded_files: Vec<String> = vec![];
    for d in &dirs {
        if cache.load_dir::<FileXY>(d).is_ok() {
            loaded_dirs.push(d.clone());
            for id in listing(d).unwrap_or_default() {
                if cache.load::<FileXY>(&id).is_ok() {
                    loaded_files.push(id);
                }
            }
        }
    }
    // An asset whose reload failed keeps the dependencies of its last successful load (C05), so once an id had no file
    // at all it may legitimately miss a later file with another extension: such ids are no longer compared.
    let tainted = std::cell::RefCell::new(std::collections::BTreeSet::<String>::new());
    let verify = |what: &str| {
        for d in &loaded_dirs {
            if let (Some(h), Some(exp)) = (cache.get_cached::<assets_manager::Directory<FileXY>>(d), listing(d)) {
                let got: Vec<String> = h.read().ids().map(|s| s.to_string()).collect();
                detsim::check(got == exp, "C12/end-to-end/stale-directory", || format!("{what}: load_dir({d:?}) lists {got:?} after hot_reload, the directory holds {exp:?}"));
            }
        }
        for id in &loaded_files {
            if let Some(h) = cache.get_cached::<FileXY>(id) {
                let rel = id.replace('.', "/");
                let on_disk = ["x", "y"].iter().find_map(|e| std::fs::read(root.join(format!("{rel}.{e}"))).ok().map(|b| (b, e.to_string())));
                if on_disk.is_none() {
                    tainted.borrow_mut().insert(id.clone());
                }
                if tainted.borrow().contains(id) {
                    continue;
                }
                if let Some((bytes, ext)) = on_disk {
                    let g = h.read();
                    detsim::check(g.0 == bytes && g.1 == ext, "C12/end-to-end/stale-file", || format!("{what}: {id} holds {:?} (.{}) after hot_reload, the first of {id}.x / {id}.y on disk is {:?} (.{ext})", String::from_utf8_lossy(&g.0), g.1, String::from_utf8_lossy(&bytes)));
                }
            }
        }
    };
    for (i, step) in w.steps.iter().enumerate() {
        match step {
            Step::CreateFile(rel) => {
                let p = root.join(rel);
                std::fs::write(&p, format!("created {i}")).unwrap();
                deliver(NK::CreateFile, p);
            }
            Step::CreateDir(rel) => {
                let p = root.join(rel.trim_end_matches('/'));
                std::fs::create_dir_all(&p).unwrap();
                deliver(NK::CreateFolder, p);
            }
            Step::Write(rel) => {
                let p = root.join(rel);
                std::fs::write(&p, format!("edit {i}")).unwrap();
                deliver(NK::ModifyData, p);
            }
            Step::Rename(from, to) => {
                let (pf, pt) = (root.join(from), root.join(to));
                std::fs::rename(&pf, &pt).unwrap();
                deliver(NK::RenameFrom, pf);
                deliver(NK::RenameTo, pt);
            }
            Step::Remove(rel) => {
                let p = root.join(rel.trim_end_matches('/'));
                let was_dir = p.is_dir();
                if was_dir {
                    std::fs::remove_dir(&p).unwrap();
                } else {
                    std::fs::remove_file(&p).unwrap();
                }
                deliver(if was_dir { NK::RemoveFolder } else { NK::RemoveFile }, p);
            }
            _ => continue,
        }
        cache.hot_reload();
        detsim::count("reach.end_to_end_step");
        verify(&format!("step {i} {step:?}"));
    }
}

pub fn scenario(w: Work) {
    let base = scratch_base();
    let dir = base.join(format!("simcheck-c12-{}-{}", std::process::id(), DIRNO.fetch_add(1, Ordering::Relaxed)));
    let _rm = RmOnDrop(dir.clone());
    let root = dir.join("watched");
    std::fs::create_dir_all(&root).unwrap();
    std::fs::create_dir_all(dir.join("elsewhere")).unwrap();
    for p in &w.initial {
        let full = root.join(p.trim_end_matches('/'));
        if p.ends_with('/') {
            std::fs::create_dir_all(&full).unwrap();
        } else {
            std::fs::create_dir_all(full.parent().unwrap()).unwrap();
            std::fs::write(&full, p.as_bytes()).unwrap();
        }
    }
    let root = root.canonicalize().unwrap();
    if w.end_to_end {
        end_to_end(&w, &root);
        return;
    }
    let mut roots = vec![root.clone()];
    if !w.second_root.is_empty() && root.join(&w.second_root).is_dir() {
        roots.push(root.join(&w.second_root));
    }
    // the real chain: FsWatcherBuilder -> (stub notify back-end) -> EventHandlerPayload -> NotifyEventHandler -> EventSender -> probe
    let (sender, probe) = verif::event_pair();
    let mut builder = FsWatcherBuilder::new().expect("FsWatcherBuilder::new");
    for r in &roots {
        // a custom source may hand the watcher a root that is not in normalised spelling; it denotes the same directory
        let spelled = match w.root_spelling {
            1 => PathBuf::from(format!("{}/", r.display())),
            2 => r.join("."),
            _ => r.clone(),
        };
        builder.watch(spelled).expect("watch");
    }
    let widx = detsim::notify_stub::watcher_count() - 1;
    let mut builder = Some(builder);
    let mut sender = Some(sender);
    let start = |builder: &mut Option<FsWatcherBuilder>, sender: &mut Option<assets_manager::hot_reloading::EventSender>| {
        if let (Some(b), Some(s)) = (builder.take(), sender.take()) {
            b.build(s);
        }
    };
    let deliver = |kind: NK, paths: Vec<PathBuf>| {
        let ev: notify::Result<Event> = match kind_of(kind) {
            Some(k) => {
                let mut e = Event::new(k);
                for p in paths {
                    e = e.add_path(p);
                }
                Ok(e)
            }
            None => Err(notify::Error::generic("injected back-end error")),
        };
        // the handler runs on a simulated watcher thread, as with the real back-end
        detsim::thread::spawn_named("notify-backend".into(), move || {
            notify::sim_deliver(widx, ev);
        })
        .join()
        .unwrap();
    };
    // what the property says one notification must produce, per path: the entry under every root that contains it (+ its parent)
    let expect = |kind: NK, path: &Path, was_dir: Option<bool>| -> Vec<String> {
        let mut out = vec![];
        if let Some(parent_too) = names_parent_too(kind) {
            // a removed entry cannot be looked at: the kind the back-end reports decides
            let was_dir = match kind {
                NK::RemoveFolder => Some(true),
                NK::RemoveFile => Some(false),
                _ => was_dir,
            };
            let mut targets: Vec<(PathBuf, Option<bool>)> = vec![(path.to_path_buf(), was_dir)];
            if parent_too {
                if let Some(p) = path.parent() {
                    targets.push((p.to_path_buf(), Some(true)));
                }
            }
            for (t, d) in targets {
                for r in &roots {
                    // the parent of a root is outside that root
                    if let Some(e) = entry_of(r, &t, d) {
                        out.push(show(&e));
                    }
                }
            }
        }
        out.sort();
        out
    };
    let dotdot = std::cell::Cell::new(false);
    let check = |what: &str, kind: NK, expected: Vec<String>| {
        let mut got: Vec<String> = probe.drain_batches().into_iter().flatten().map(|e| show(&e)).collect();
        got.sort();
        if expected.is_empty() {
            detsim::count("reach.notification_that_must_produce_nothing");
        } else if names_parent_too(kind) == Some(true) {
            detsim::count("reach.entry_and_parent_expected");
        }
        if got != expected {
            let missing: Vec<&String> = expected.iter().filter(|e| !got.contains(e)).collect();
            let extra: Vec<&String> = got.iter().filter(|e| !expected.contains(e)).collect();
            let class = match kind {
                // the reported path contains `..`: the entry is resolved, its parent directory is not (known finding F-C12d)
                _ if dotdot.get() && extra.is_empty() && missing.iter().all(|m| m.starts_with("Dir(")) => "dotdot-in-path/parent-not-named",
                NK::RemoveFile | NK::RemoveFolder if extra.is_empty() && !missing.is_empty() => "remove/entry-not-named",
                NK::RenameFrom | NK::RenameTo | NK::RenameBoth if extra.is_empty() && !missing.is_empty() => "rename/parent-not-named",
                _ if extra.is_empty() && missing.iter().all(|m| m.as_str() == "Dir()") => "root-directory-not-named",
                _ => "wrong-events",
            };
            detsim::fail(&format!("C12/{class}"), format!("{what}: a {kind:?} notification produced events {got:?}; the property's table says {expected:?} (missing {missing:?}, unexpected {extra:?}); roots {roots:?}"));
        }
    };
    for (i, step) in w.steps.iter().enumerate() {
        if !matches!(step, Step::TooEarly(_)) {
            start(&mut builder, &mut sender);
        }
        match step {
            Step::TooEarly(rel) => {
                if builder.is_some() {
                    deliver(NK::ModifyData, vec![root.join(rel.trim_end_matches('/'))]);
                    check(&format!("step {i} (before the watcher was started)"), NK::Other, vec![]);
                    detsim::count("fault.notification_before_start");
                }
            }
            Step::CreateFile(rel) => {
                let p = root.join(rel);
                std::fs::write(&p, b"new").unwrap();
                deliver(NK::CreateFile, vec![p.clone()]);
                check(&format!("step {i} create file {rel}"), NK::CreateFile, expect(NK::CreateFile, &p, None));
            }
            Step::CreateDir(rel) => {
                let p = root.join(rel.trim_end_matches('/'));
                std::fs::create_dir_all(&p).unwrap();
                deliver(NK::CreateFolder, vec![p.clone()]);
                check(&format!("step {i} create dir {rel}"), NK::CreateFolder, expect(NK::CreateFolder, &p, None));
            }
            Step::Write(rel) => {
                let p = root.join(rel);
                std::fs::write(&p, format!("edit {i}")).unwrap();
                deliver(NK::ModifyData, vec![p.clone()]);
                check(&format!("step {i} write {rel}"), NK::ModifyData, expect(NK::ModifyData, &p, None));
            }
            Step::Rename(from, to) => {
                let (pf, pt) = (root.join(from), root.join(to));
                std::fs::rename(&pf, &pt).unwrap();
                // inotify reports the two halves separately
                deliver(NK::RenameFrom, vec![pf.clone()]);
                check(&format!("step {i} rename {from} -> {to} (old name)"), NK::RenameFrom, expect(NK::RenameFrom, &pf, Some(false)));
                deliver(NK::RenameTo, vec![pt.clone()]);
                check(&format!("step {i} rename {from} -> {to} (new name)"), NK::RenameTo, expect(NK::RenameTo, &pt, None));
            }
            Step::Remove(rel) => {
                let p = root.join(rel.trim_end_matches('/'));
                let was_dir = p.is_dir();
                if was_dir {
                    std::fs::remove_dir(&p).unwrap();
                } else {
                    std::fs::remove_file(&p).unwrap();
                }
                let k = if was_dir { NK::RemoveFolder } else { NK::RemoveFile };
                deliver(k, vec![p.clone()]);
                check(&format!("step {i} remove {rel}"), k, expect(k, &p, Some(was_dir)));
            }
            Step::Synthetic(k, rel, f) => {
                let p = form(&root, rel, *f);
                dotdot.set(*f == PathForm::ParentDir);
                deliver(*k, vec![p.clone()]);
                if *f != PathForm::Plain {
                    detsim::count("reach.relative_components_in_path");
                }
                check(&format!("step {i} synthetic {k:?} for {p:?}"), *k, expect(*k, &p, None));
                dotdot.set(false);
            }
            Step::Outside(k) => {
                let p = dir.join("elsewhere").join("o.x");
                deliver(*k, vec![p]);
                check(&format!("step {i} notification outside every root"), NK::Other, vec![]);
            }
        }
    }
    // the watcher still works after everything above: a last valid notification is handled
    start(&mut builder, &mut sender);
    let p = root.join("final_probe.x");
    std::fs::write(&p, b"x").unwrap();
    deliver(NK::ModifyData, vec![p.clone()]);
    check("final probe", NK::ModifyData, expect(NK::ModifyData, &p, None));
    // round trip: distinct entries of one kind have distinct paths, and the inverse maps each path back
    let fs = FileSystem::new(&root).unwrap();
    for pth in w.initial.iter().take(6) {
        let full = root.join(pth.trim_end_matches('/'));
        if !full.exists() || full.is_dir() != pth.ends_with('/') {
            continue;
        }
        if let Some(e) = entry_of(&root, &full, Some(pth.ends_with('/'))) {
            let back = fs.path_of(e.as_dir_entry());
            detsim::check(back == full, "C12/path_of-roundtrip", || format!("path_of({}) = {back:?}, expected {full:?}", show(&e)));
            let via_hook = verif::id_of_path(&root, &full);
            if full.exists() {
                detsim::check(via_hook.as_ref().map(show) == Some(show(&e)), "C12/id_of_path", || format!("id_of_path({full:?}) = {:?}, expected {}", via_hook.as_ref().map(show), show(&e)));
            }
        }
    }
    let _ = DirEntry::Directory("");
}
