//! C14 — dependencies are attributed to the asset being loaded, and only to it: recipes nesting load / load_owned /
//! get_cached / directory loads / no_record / helper threads / another cache, then single-entry edits of the entries involved.
use crate::common::*;
use crate::graph;
use crate::world::reset_run;
use detsim::SplitMix;
use serde_json::Value;

pub struct C14;
impl Property for C14 {
    fn id(&self) -> &'static str {
        "C14"
    }
    fn info(&self) -> PropInfo {
        PropInfo {
            level: "exploration",
            rule: "a run is non-trivial when a single-entry edit reloaded at least one asset (so that both directions were checked: the assets that moved and the cached assets that had to stay)",
            real: &["src/hot_reloading/records.rs (RECORDING thread-local, record / no_record, CellGuard, reloader identity check)", "src/anycache.rs (where file / directory / asset dependencies are recorded)", "src/asset.rs (load_and_record)", "src/cache.rs (no_record)"],
            stub: &["helper threads are simulated threads spawned and joined inside Compound::load", "a second hot cache with its own in-memory source", "channels / locks / scheduler (detsim)"],
            assumptions: &["the set of handles whose reload id moves after editing exactly one entry must equal the model's reverse closure for that entry; inside loads the recorder pointer is sampled through hook H7 (non-null and unchanged after every nested load / no_record block / caught panic, null on helper threads)"],
            runs: (55_000, 1_800_000),
        }
    }
    fn generate(&self, g: &mut SplitMix, k: &mut SplitMix, _tier: Tier) -> (Knobs, Value) {
        let knobs = Knobs::draw(k);
        let w = graph::generate(g, &graph::GenOpts { helpers: true, single_entry_rounds: true, max_rounds: 6 });
        (knobs, serde_json::to_value(w).unwrap())
    }
    fn execute(&self, case: &Case) -> Outcome {
        let w: graph::GWork = serde_json::from_value(case.work.clone()).unwrap();
        let shape = fnv(case.work.to_string().as_bytes());
        let cfg = case.knobs.to_config(case.seed, case.tape.clone());
        reset_run();
        let r = detsim::run(cfg, move || graph::scenario(w));
        let nontrivial = r.counters.get("reach.reload_after_notified_edit").copied().unwrap_or(0) > 0;
        outcome_from(r, nontrivial, shape, |f| f.rule())
    }
    fn shrink(&self, work: &Value) -> Vec<Value> {
        let w: graph::GWork = serde_json::from_value(work.clone()).unwrap();
        graph::shrink(&w).into_iter().map(|x| serde_json::to_value(x).unwrap()).collect()
    }
}
