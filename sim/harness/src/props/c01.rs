//! C01 — one stable handle per (id, type), whatever the thread interleaving.
use crate::common::*;
use crate::ledger::{self, Tracked};
use crate::lin;
use crate::world::*;
use assets_manager::{AssetCache, Handle};
use detsim::SplitMix;
use serde::{Deserialize, Serialize};
use serde_json::Value;
use std::collections::BTreeMap;

#[derive(Clone, Copy, Debug, Serialize, Deserialize, PartialEq, Eq, PartialOrd, Ord, Hash)]
pub enum KTy {
    /// hot-reloadable asset (dynamic entry when the cache has a reloader)
    LA,
    /// asset that opted out of hot-reloading
    LS,
    /// plain storable value (get_or_insert only)
    TV,
}
#[derive(Clone, Debug, Serialize, Deserialize, PartialEq, Eq, Hash)]
pub enum Op {
    Load(KTy, usize, bool),
    Cached(KTy, usize, bool),
    Insert(KTy, usize, bool),
    Contains(KTy, usize, bool),
    Filler(usize),
    ReRead,
}
#[derive(Clone, Debug, Serialize, Deserialize, PartialEq)]
pub enum MutOp {
    Remove(KTy, usize),
    Take(KTy, usize),
    Clear,
}
#[derive(Clone, Debug, Serialize, Deserialize)]
pub struct Phase {
    pub threads: Vec<Vec<Op>>,
    pub then: Vec<MutOp>,
}
#[derive(Clone, Debug, Serialize, Deserialize)]
pub struct Work {
    pub hot: bool,
    pub variant: u8,
    /// which of the keys k0..k2 have a file "kN.a"
    pub present: Vec<bool>,
    pub phases: Vec<Phase>,
    /// spelling of the ids (hist::id_suffix): plain, long, with a path separator, non-ASCII
    #[serde(default)]
    pub id_style: u8,
}
/// (a worker process executes one run at a time)
static ID_STYLE_RUN: std::sync::atomic::AtomicU8 = std::sync::atomic::AtomicU8::new(0);
fn key(i: usize) -> String {
    format!("k{i}{}", crate::hist::id_suffix(ID_STYLE_RUN.load(std::sync::atomic::Ordering::Relaxed)))
}

/// what an operation observed
#[derive(Clone, Debug, PartialEq, Eq)]
pub enum Res {
    /// value id behind the returned handle
    Val(u64),
    Absent,
    Err,
    Bool(bool),
}
#[derive(Clone, Debug, PartialEq, Eq, Hash)]
pub struct MOp {
    op: u8, // 0 load 1 cached 2 insert 3 contains
    cand: Option<u64>,
    loadable: bool,
}
#[derive(Clone, Hash, PartialEq, Eq)]
struct Slot(Option<u64>);
impl lin::SeqModel for Slot {
    type Op = MOp;
    type Res = Res;
    fn apply(&mut self, o: &MOp) -> Res {
        match (o.op, self.0) {
            (0, Some(x)) | (1, Some(x)) | (2, Some(x)) => Res::Val(x),
            (0, None) => {
                if !o.loadable {
                    return Res::Err;
                }
                match o.cand {
                    Some(c) => {
                        self.0 = Some(c);
                        Res::Val(c)
                    }
                    // a load that found nothing cached must have run the loader
                    None => Res::Err,
                }
            }
            (1, None) => Res::Absent,
            (2, None) => {
                self.0 = o.cand;
                Res::Val(o.cand.unwrap_or(0))
            }
            (_, s) => Res::Bool(s.is_some()),
        }
    }
}

struct Ev {
    k: (KTy, usize),
    e: lin::Event<MOp, Res>,
    addr: usize,
}

fn val_id_la(h: &Handle<LA>) -> u64 {
    h.read().0.t.id
}

pub struct C01;
impl Property for C01 {
    fn id(&self) -> &'static str {
        "C01"
    }
    fn info(&self) -> PropInfo {
        PropInfo {
            level: "exploration",
            rule: "a run is non-trivial when, within one phase, >= 2 threads were past the cache miss of the same key at the same time (two loader results for one key) or a get_or_insert lost an insertion race",
            real: &["src/cache.rs", "src/anycache.rs", "src/entry.rs", "src/utils/private.rs (keys, lock wrappers)", "hashbrown/std HashMap", "ahash hashing (real) or SipHash"],
            stub: &["RwLock of each shard (detsim model; writer- or reader-preferring per run)", "hash seeds (deterministic stream)", "shard count (knob, hook H4)", "Source (in-memory; read is a scheduling point)"],
            assumptions: &["dangling handles are detected through the drop ledger (a value dropped while the model says it is stored) and wrong contents, not through memory errors"],
            runs: (60_000, 2_000_000),
        }
    }
    fn generate(&self, g: &mut SplitMix, k: &mut SplitMix, _tier: Tier) -> (Knobs, Value) {
        let knobs = Knobs::draw(k);
        let nkeys = 1 + g.below(3) as usize;
        let tys = [KTy::LA, KTy::LA, KTy::LS, KTy::TV];
        let big_fill = g.chance(1, 25);
        let phases = (0..1 + g.below(3))
            .map(|_| {
                let nthreads = 2 + g.below(3) as usize;
                let hot_key = g.below(nkeys as u64) as usize;
                let hot_ty = *g.pick(&tys);
                let threads = (0..nthreads)
                    .map(|_| {
                        (0..1 + g.below(7))
                            .map(|_| {
                                let (ty, key) = if g.chance(2, 3) { (hot_ty, hot_key) } else { (*g.pick(&tys), g.below(nkeys as u64) as usize) };
                                let any = g.chance(1, 3);
                                match g.below(12) {
                                    0 | 1 | 2 | 3 => {
                                        if ty == KTy::TV {
                                            Op::Insert(ty, key, any)
                                        } else {
                                            Op::Load(ty, key, any)
                                        }
                                    }
                                    4 | 5 => Op::Cached(ty, key, any),
                                    6 | 7 => Op::Insert(ty, key, any),
                                    8 => Op::Contains(ty, key, any),
                                    9 => Op::ReRead,
                                    _ => Op::Filler(if big_fill { 200 + g.below(1800) as usize } else { 1 + g.below(40) as usize }),
                                }
                            })
                            .collect()
                    })
                    .collect();
                let then = (0..g.below(3))
                    .map(|_| match g.below(5) {
                        0 | 1 => MutOp::Remove(*g.pick(&tys), g.below(nkeys as u64) as usize),
                        2 | 3 => MutOp::Take(*g.pick(&tys), g.below(nkeys as u64) as usize),
                        _ => MutOp::Clear,
                    })
                    .collect();
                Phase { threads, then }
            })
            .collect();
        let w = Work { hot: g.chance(2, 3), variant: g.below(4) as u8, present: (0..nkeys).map(|_| g.chance(5, 6)).collect(), phases, id_style: *g.pick(&[0u8, 0, 0, 0, 0, 1, 2, 3, 4, 5, 6]) };
        (knobs, serde_json::to_value(w).unwrap())
    }
    fn execute(&self, case: &Case) -> Outcome {
        let w: Work = serde_json::from_value(case.work.clone()).unwrap();
        let shape = fnv(case.work.to_string().as_bytes());
        let nt = shared(false);
        let nt2 = nt.clone();
        let cfg = case.knobs.to_config(case.seed, case.tape.clone());
        reset_run();
        ID_STYLE_RUN.store(w.id_style, std::sync::atomic::Ordering::Relaxed);
        let r = detsim::run(cfg, move || scenario(w, nt2));
        let nontrivial = *nt.lock().unwrap();
        outcome_from(r, nontrivial, shape, |f| f.rule())
    }
    fn shrink(&self, work: &Value) -> Vec<Value> {
        let w: Work = serde_json::from_value(work.clone()).unwrap();
        let mut out = vec![];
        for p in 0..w.phases.len() {
            if w.phases.len() > 1 {
                let mut x = w.clone();
                x.phases.remove(p);
                out.push(x);
            }
            if !w.phases[p].then.is_empty() {
                let mut x = w.clone();
                x.phases[p].then.clear();
                out.push(x);
            }
            for t in 0..w.phases[p].threads.len() {
                if w.phases[p].threads.len() > 1 {
                    let mut x = w.clone();
                    x.phases[p].threads.remove(t);
                    out.push(x);
                }
                for i in 0..w.phases[p].threads[t].len() {
                    let mut x = w.clone();
                    x.phases[p].threads[t].remove(i);
                    out.push(x);
                    if let Op::Filler(n) = w.phases[p].threads[t][i] {
                        if n > 1 {
                            let mut x = w.clone();
                            x.phases[p].threads[t][i] = Op::Filler(n / 2);
                            out.push(x);
                        }
                    }
                }
            }
        }
        if w.hot {
            let mut x = w.clone();
            x.hot = false;
            out.push(x);
        }
        out.into_iter().map(|x| serde_json::to_value(x).unwrap()).collect()
    }
}

fn scenario(w: Work, nt: Shared<bool>) {
    let mut tree = Tree::default();
    for (i, p) in w.present.iter().enumerate() {
        if *p {
            tree.put(&key(i), "a", format!("content-{i}").as_bytes());
        }
    }
    let src = SimSource::new(tree, HotMode::Custom, w.variant);
    let mut cache = if w.hot { AssetCache::with_source(src.clone()) } else { AssetCache::without_hot_reloading(src.clone()) };
    let mut filler_no = 0usize;
    for (pi, phase) in w.phases.iter().enumerate() {
        let evs: Shared<Vec<Ev>> = shared(vec![]);
        let mut before: BTreeMap<(KTy, usize), Option<u64>> = BTreeMap::new();
        for k in 0..w.present.len() {
            for ty in [KTy::LA, KTy::LS, KTy::TV] {
                before.insert((ty, k), current_value(&cache, ty, &key(k)));
            }
        }
        let fill_base = filler_no;
        filler_no += 10_000;
        {
            let cache = &cache;
            let present = &w.present;
            detsim::thread::scope(|s| {
                for (t, ops) in phase.threads.iter().enumerate() {
                    let evs = evs.clone();
                    s.spawn(&format!("c{t}"), move || {
                        // handles this thread obtained: (key, addr, first value id)
                        let mut mine: Vec<((KTy, usize), usize, u64)> = vec![];
                        let mut fill = fill_base + t * 2_000;
                        let reread = |mine: &Vec<((KTy, usize), usize, u64)>| {
                            for &(k, addr, id0) in mine {
                                let id = unsafe {
                                    match k.0 {
                                        KTy::LA => val_id_la(&*(addr as *const Handle<LA>)),
                                        KTy::LS => (*(addr as *const Handle<LS>)).read().0.t.id,
                                        KTy::TV => (*(addr as *const Handle<TV>)).read().t.id,
                                    }
                                };
                                detsim::check(id == id0, "C01/value-changed", || format!("handle of {k:?} first read value #{id0}, now #{id} (no removal, no reload happened)"));
                                detsim::check(ledger::is_live(id), "C01/dangling-handle", || format!("handle of {k:?} reads value #{id} which has been dropped"));
                            }
                        };
                        for op in ops {
                            match op {
                                Op::ReRead => reread(&mine),
                                Op::Filler(n) => {
                                    for _ in 0..*n {
                                        fill += 1;
                                        let h = cache.get_or_insert::<TV>(&format!("fill{fill}"), TV { n: fill as u64, t: Tracked::new("filler") });
                                        detsim::check(h.read().n == fill as u64, "C01/filler-wrong-value", || format!("filler {fill} reads {}", h.read().n));
                                    }
                                    detsim::count("reach.filler_burst");
                                }
                                Op::Load(ty, k, any) | Op::Cached(ty, k, any) | Op::Insert(ty, k, any) | Op::Contains(ty, k, any) => {
                                    let id = key(*k);
                                    let _ = ledger::take_created();
                                    let inv = detsim::seq();
                                    let kind: u8 = match op {
                                        Op::Load(..) if *ty == KTy::TV => 2,
                                        Op::Load(..) => 0,
                                        Op::Cached(..) => 1,
                                        Op::Insert(..) => 2,
                                        _ => 3,
                                    };
                                    // (result, handle address)
                                    let (res, addr): (Res, usize) = match ty {
                                        KTy::LA => do_op::<LA>(cache, kind, *any, &id, |t| LA(LeafVal { bytes: b"inserted".to_vec(), ext: "ins".into(), default: false, t }), |h| h.read().0.t.id),
                                        KTy::LS => do_op::<LS>(cache, kind, *any, &id, |t| LS(LeafVal { bytes: b"inserted".to_vec(), ext: "ins".into(), default: false, t }), |h| h.read().0.t.id),
                                        KTy::TV => do_op_storable::<TV>(cache, kind, *any, &id, |t| TV { n: 7, t }, |h| h.read().t.id),
                                    };
                                    let ret = detsim::seq();
                                    let created = ledger::take_created();
                                    detsim::check(created.len() <= 1, "C01/harness", || format!("one operation created {} values", created.len()));
                                    if let Res::Val(v) = res {
                                        ledger::pin(v);
                                        mine.push(((*ty, *k), addr, v));
                                    }
                                    let loadable = *ty != KTy::TV && present[*k];
                                    evs.lock().unwrap().push(Ev { k: (*ty, *k), e: lin::Event { thread: t, inv, ret, op: MOp { op: kind, cand: created.first().copied(), loadable }, res }, addr });
                                }
                            }
                        }
                        detsim::thread::yield_now();
                        reread(&mine);
                    });
                }
            });
        }
        // ---- oracles of the phase
        let evs = evs.lock().unwrap();
        let mut by_key: BTreeMap<(KTy, usize), Vec<&Ev>> = BTreeMap::new();
        for e in evs.iter() {
            by_key.entry(e.k).or_default().push(e);
        }
        for (k, es) in &by_key {
            // (a) pointer identity
            let addrs: Vec<usize> = es.iter().filter(|e| e.addr != 0).map(|e| e.addr).collect();
            detsim::check(addrs.windows(2).all(|w| w[0] == w[1]), "C01/different-handles", || format!("phase {pi}: {k:?} was handed out at different addresses {addrs:x?}"));
            // (b) one winner, every racer observes it
            let vals: Vec<u64> = es.iter().filter_map(|e| if let Res::Val(v) = e.e.res { Some(v) } else { None }).collect();
            detsim::check(vals.windows(2).all(|w| w[0] == w[1]), "C01/racers-disagree", || format!("phase {pi}: operations on {k:?} observed different values {vals:?}"));
            let cands: Vec<u64> = es.iter().filter_map(|e| e.e.op.cand).collect();
            if let Some(&win) = vals.first() {
                detsim::check(ledger::is_live(win), "C01/winner-dropped", || format!("phase {pi}: stored value #{win} of {k:?} was dropped"));
                for c in &cands {
                    if *c != win {
                        detsim::check(!ledger::is_live(*c), "C01/loser-not-dropped", || format!("phase {pi}: value #{c} lost the race for {k:?} against #{win} but is still alive"));
                    }
                }
            }
            let load_cands = es.iter().filter(|e| e.e.op.op == 0 && e.e.op.cand.is_some()).count();
            let lost_insert = es.iter().any(|e| e.e.op.op == 2 && matches!((e.e.op.cand, &e.e.res), (Some(c), Res::Val(v)) if c != *v));
            if load_cands >= 2 {
                detsim::count("reach.simultaneous_cache_miss");
            }
            if load_cands >= 2 || (lost_insert && cands.len() >= 2) {
                *nt.lock().unwrap() = true;
            }
            // (c) presence is monotone / the history is linearizable against an insert-once slot
            if es.len() <= 20 {
                let first_state = before.get(k).copied().flatten();
                let hist: Vec<lin::Event<MOp, Res>> = es.iter().map(|e| e.e.clone()).collect();
                if let Err(h) = lin::check(Slot(first_state), &hist) {
                    detsim::fail("C01/not-linearizable", format!("phase {pi}: history on {k:?} is not linearizable against an insert-once slot (initially {first_state:?}): {h}"));
                }
            } else {
                detsim::count("reach.history_too_long_for_lin_check");
            }
        }
        drop(evs);
        // ---- between phases: exclusive operations
        for m in &phase.then {
            match m {
                MutOp::Remove(ty, k) => {
                    let id = key(*k);
                    let cur = current_value(&cache, *ty, &id);
                    if let Some(v) = cur {
                        unpin_all(v);
                    }
                    let removed = match ty {
                        KTy::LA => cache.remove::<LA>(&id),
                        KTy::LS => cache.remove::<LS>(&id),
                        KTy::TV => cache.remove::<TV>(&id),
                    };
                    detsim::check(removed == cur.is_some(), "C01/remove-result", || format!("remove({ty:?},{id}) returned {removed} but the key was {}", if cur.is_some() { "present" } else { "absent" }));
                    if let Some(v) = cur {
                        detsim::check(!ledger::is_live(v), "C01/removed-not-dropped", || format!("value #{v} still alive after remove"));
                    }
                    detsim::check(current_value(&cache, *ty, &id).is_none(), "C01/still-present-after-remove", || format!("{ty:?} {id} still cached after remove"));
                }
                MutOp::Take(ty, k) => {
                    let id = key(*k);
                    let cur = current_value(&cache, *ty, &id);
                    if let Some(v) = cur {
                        unpin_all(v);
                    }
                    let got = match ty {
                        KTy::LA => cache.take::<LA>(&id).map(|v| v.0.t.id),
                        KTy::LS => cache.take::<LS>(&id).map(|v| v.0.t.id),
                        KTy::TV => cache.take::<TV>(&id).map(|v| v.t.id),
                    };
                    detsim::check(got == cur, "C01/take-result", || format!("take({ty:?},{id}) returned {got:?}, stored was {cur:?}"));
                }
                MutOp::Clear => {
                    for (id, _) in ledger::live() {
                        unpin_all(id);
                    }
                    cache.clear();
                    for k in 0..w.present.len() {
                        for ty in [KTy::LA, KTy::LS, KTy::TV] {
                            detsim::check(current_value(&cache, ty, &key(k)).is_none(), "C01/present-after-clear", || format!("{ty:?} {} still cached after clear", key(k)));
                        }
                    }
                }
            }
        }
    }
    for (id, _) in ledger::live() {
        unpin_all(id);
    }
    drop(cache);
    let live = ledger::live();
    detsim::check(live.is_empty(), "C01/leak-after-drop", || format!("values still alive after the cache was dropped: {live:?}"));
}
fn unpin_all(id: u64) {
    while ledger::item(id).map(|i| i.pinned > 0).unwrap_or(false) {
        ledger::unpin(id);
    }
}
fn current_value(cache: &AssetCache<SimSource>, ty: KTy, id: &str) -> Option<u64> {
    match ty {
        KTy::LA => cache.get_cached::<LA>(id).map(|h| h.read().0.t.id),
        KTy::LS => cache.get_cached::<LS>(id).map(|h| h.read().0.t.id),
        KTy::TV => cache.get_cached::<TV>(id).map(|h| h.read().t.id),
    }
}
fn do_op<T: assets_manager::Compound>(cache: &AssetCache<SimSource>, kind: u8, any: bool, id: &str, mk: impl FnOnce(Tracked) -> T, vid: impl Fn(&Handle<T>) -> u64) -> (Res, usize) {
    let h: Option<&Handle<T>> = match (kind, any) {
        (0, false) => match cache.load::<T>(id) {
            Ok(h) => Some(h),
            Err(_) => return (Res::Err, 0),
        },
        (0, true) => match cache.as_any_cache().load::<T>(id) {
            Ok(h) => Some(h),
            Err(_) => return (Res::Err, 0),
        },
        (1, false) => cache.get_cached::<T>(id),
        (1, true) => cache.as_any_cache().get_cached::<T>(id),
        (2, false) => Some(cache.get_or_insert::<T>(id, mk(Tracked::new(format!("insert {id}"))))),
        (2, true) => Some(cache.as_any_cache().get_or_insert::<T>(id, mk(Tracked::new(format!("insert {id}"))))),
        (_, false) => return (Res::Bool(cache.contains::<T>(id)), 0),
        (_, true) => return (Res::Bool(cache.as_any_cache().contains::<T>(id)), 0),
    };
    match h {
        Some(h) => {
            // validate the address with a second lookup before reading through it (a dangling handle must not be dereferenced)
            let again = cache.get_cached::<T>(id).map(|x| x as *const Handle<T> as usize);
            let addr = h as *const Handle<T> as usize;
            detsim::check(again == Some(addr), "C01/different-handles", || format!("operation {kind} on {id} returned handle {addr:x}, an immediate get_cached returned {again:x?}"));
            detsim::check(h.id().as_str() == id, "C01/handle-id", || format!("handle for {id} says id {}", h.id()));
            (Res::Val(vid(h)), addr)
        }
        None => (Res::Absent, 0),
    }
}
fn do_op_storable<T: assets_manager::Storable>(cache: &AssetCache<SimSource>, kind: u8, any: bool, id: &str, mk: impl FnOnce(Tracked) -> T, vid: impl Fn(&Handle<T>) -> u64) -> (Res, usize) {
    let h: Option<&Handle<T>> = match (kind, any) {
        (1, false) => cache.get_cached::<T>(id),
        (1, true) => cache.as_any_cache().get_cached::<T>(id),
        (0, false) | (2, false) => Some(cache.get_or_insert::<T>(id, mk(Tracked::new(format!("insert {id}"))))),
        (0, true) | (2, true) => Some(cache.as_any_cache().get_or_insert::<T>(id, mk(Tracked::new(format!("insert {id}"))))),
        (_, false) => return (Res::Bool(cache.contains::<T>(id)), 0),
        (_, true) => return (Res::Bool(cache.as_any_cache().contains::<T>(id)), 0),
    };
    match h {
        Some(h) => {
            let again = cache.get_cached::<T>(id).map(|x| x as *const Handle<T> as usize);
            let addr = h as *const Handle<T> as usize;
            detsim::check(again == Some(addr), "C01/different-handles", || format!("operation {kind} on {id} returned handle {addr:x}, an immediate get_cached returned {again:x?}"));
            (Res::Val(vid(h)), addr)
        }
        None => (Res::Absent, 0),
    }
}
