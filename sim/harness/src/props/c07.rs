//! C07 — readers are isolated from reloads: guards pin values, no torn reads.
use crate::common::*;
use crate::ledger::{self, Tracked};
use crate::props::c18::rid_num;
use crate::world::*;
use assets_manager::{loader::Loader, Asset, AssetCache, AssetReadGuard, BoxedError};
use detsim::SplitMix;
use serde::{Deserialize, Serialize};
use serde_json::Value;
use std::borrow::Cow;

/// Self-checking multi-word value: every word equals `ver`, `sum` = ver * (words + vec.len()).
pub struct Big {
    pub ver: u64,
    pub words: [u64; 32],
    pub vec: Vec<u64>,
    pub sum: u64,
    pub t: Tracked,
}
impl Big {
    fn check(&self, who: &str) -> u64 {
        let ok = self.words.iter().all(|w| *w == self.ver) && self.vec.iter().all(|w| *w == self.ver) && self.sum == self.ver * (32 + self.vec.len() as u64);
        detsim::check(ok, "C07/torn-read", || format!("{who}: value is a mixture: ver {} words {:?}.. vec {:?}.. sum {}", self.ver, &self.words[..3], &self.vec[..self.vec.len().min(3)], self.sum));
        self.ver
    }
}
trait HandleExt {
    fn cloned_len(&self) -> usize;
}
impl HandleExt for assets_manager::Handle<Big> {
    fn cloned_len(&self) -> usize {
        self.read().vec.len()
    }
}
#[derive(Clone, Copy)]
pub struct BigC(pub [u64; 16]);
pub struct VerLoader;
fn parse_ver(content: &[u8]) -> Result<u64, BoxedError> {
    let s = std::str::from_utf8(content)?;
    Ok(s.trim().trim_start_matches('v').parse::<u64>()?)
}
impl Loader<Big> for VerLoader {
    fn load(content: Cow<[u8]>, _ext: &str) -> Result<Big, BoxedError> {
        let ver = parse_ver(&content)?;
        let n = 5 + (ver % 7) as usize;
        Ok(Big { ver, words: [ver; 32], vec: vec![ver; n], sum: ver * (32 + n as u64), t: Tracked::new(format!("big v{ver}")) })
    }
}
impl Loader<BigC> for VerLoader {
    fn load(content: Cow<[u8]>, _ext: &str) -> Result<BigC, BoxedError> {
        Ok(BigC([parse_ver(&content)?; 16]))
    }
}
impl Asset for Big {
    const EXTENSION: &'static str = "big";
    type Loader = VerLoader;
}
impl Asset for BigC {
    const EXTENSION: &'static str = "big";
    type Loader = VerLoader;
}

#[derive(Clone, Debug, Serialize, Deserialize, PartialEq)]
pub enum ROp {
    Short(usize),
    Long(usize, usize),
    Mapped(usize, usize),
    Halves(usize),
    Copied(usize),
    Poll(usize),
}
#[derive(Clone, Debug, Serialize, Deserialize)]
pub struct Work {
    pub nkeys: usize,
    pub static_mode: bool,
    pub readers: Vec<Vec<ROp>>,
    /// each reload step: keys edited+notified before the barrier
    pub reloads: Vec<Vec<usize>>,
    /// other threads calling hot_reload at the same time (number of calls each makes): the main caller must still be
    /// released only by the answer to its own request
    #[serde(default)]
    pub co_callers: Vec<u8>,
}

pub struct C07;
impl Property for C07 {
    fn id(&self) -> &'static str {
        "C07"
    }
    fn info(&self) -> PropInfo {
        PropInfo {
            level: "exploration",
            rule: "a run is non-trivial when a read guard was alive at a moment when the reloader wanted to rewrite the same asset (a writer waited for readers), or a polling reader was told about a reload by its watcher",
            real: &["src/entry.rs (read, write, swap_any, guards, map/try_map)", "src/hot_reloading/mod.rs + paths.rs (local mode: update only inside hot_reload)", "src/utils/private.rs (RwLock wrapper)"],
            stub: &["RwLock<()> of each entry (detsim; writer- or reader-preferring per run; std-style and parking_lot-style front-ends)", "scheduler; channels"],
            assumptions: &["swap_any is one memcpy without a scheduling point inside: a reader that bypasses the lock cannot be caught *mid-swap* by engine A (value mixtures of that kind are left to the Miri engine); engine A catches every protocol error visible at lock boundaries", "generator respects the documented preconditions: no guard held across hot_reload on the same thread, no nested guards on one asset on one thread"],
            runs: (120_000, 4_000_000),
        }
    }
    fn generate(&self, g: &mut SplitMix, k: &mut SplitMix, _tier: Tier) -> (Knobs, Value) {
        let knobs = Knobs::draw(k);
        let nkeys = 1 + g.below(3) as usize;
        let nreaders = 1 + g.below(4) as usize;
        let readers = (0..nreaders)
            .map(|_| {
                (0..1 + g.below(6))
                    .map(|_| {
                        let key = g.below(nkeys as u64) as usize;
                        match g.below(9) {
                            0 | 1 => ROp::Short(key),
                            2 | 3 => ROp::Long(key, 1 + g.below(6) as usize),
                            4 => ROp::Mapped(key, 1 + g.below(4) as usize),
                            5 | 6 => ROp::Halves(key),
                            7 => ROp::Copied(key),
                            _ => ROp::Poll(key),
                        }
                    })
                    .collect()
            })
            .collect();
        let reloads = (0..1 + g.below(6)).map(|_| (0..1 + g.below(2)).map(|_| g.below(nkeys as u64) as usize).collect()).collect();
        let co_callers: Vec<u8> = if g.chance(1, 3) { (0..1 + g.below(2)).map(|_| 1 + g.below(4) as u8).collect() } else { vec![] };
        (knobs, serde_json::to_value(Work { nkeys, static_mode: g.chance(1, 4), readers, reloads, co_callers }).unwrap())
    }
    fn execute(&self, case: &Case) -> Outcome {
        let w: Work = serde_json::from_value(case.work.clone()).unwrap();
        let shape = fnv(case.work.to_string().as_bytes());
        let cfg = case.knobs.to_config(case.seed, case.tape.clone());
        reset_run();
        let r = detsim::run(cfg, move || scenario(w));
        let nontrivial = r.counters.get("reach.writer_waits_for_readers").copied().unwrap_or(0) > 0 || r.counters.get("reach.watcher_saw_reload").copied().unwrap_or(0) > 0;
        outcome_from(r, nontrivial, shape, |f| f.rule())
    }
    fn shrink(&self, work: &Value) -> Vec<Value> {
        let w: Work = serde_json::from_value(work.clone()).unwrap();
        let mut out = vec![];
        for t in 0..w.readers.len() {
            if w.readers.len() > 1 {
                let mut x = w.clone();
                x.readers.remove(t);
                out.push(x);
            }
            for i in 0..w.readers[t].len() {
                let mut x = w.clone();
                x.readers[t].remove(i);
                out.push(x);
            }
        }
        for i in 0..w.reloads.len() {
            if w.reloads.len() > 1 {
                let mut x = w.clone();
                x.reloads.remove(i);
                out.push(x);
            }
        }
        for i in 0..w.co_callers.len() {
            let mut x = w.clone();
            x.co_callers.remove(i);
            out.push(x);
            if w.co_callers[i] > 1 {
                let mut x = w.clone();
                x.co_callers[i] -= 1;
                out.push(x);
            }
        }
        out.into_iter().map(|x| serde_json::to_value(x).unwrap()).collect()
    }
}

fn scenario(w: Work) {
    let mut tree = Tree::default();
    for k in 0..w.nkeys {
        tree.put(&format!("k{k}"), "big", b"v1");
    }
    let src = SimSource::new(tree, HotMode::Custom, 1);
    let cache: &'static AssetCache<SimSource> = Box::leak(Box::new(AssetCache::with_source(src.clone())));
    for k in 0..w.nkeys {
        cache.load::<Big>(&format!("k{k}")).expect("preload");
        cache.load::<BigC>(&format!("k{k}")).expect("preload");
    }
    if w.static_mode {
        cache.enhance_hot_reloading();
        detsim::quiesce();
    }
    // versions ever written per key, in order (generation i has version gens[k][i])
    let gens: Shared<Vec<Vec<u64>>> = shared(vec![vec![1]; w.nkeys]);
    let calls: Shared<Vec<(u64, u64)>> = shared(vec![]);
    // (key, reload id seen right after the watcher said "reloaded", version read afterwards)
    let polls: Shared<Vec<(usize, usize, u64)>> = shared(vec![]);
    // complete read operations: (handle address, invoke seq, return seq, what)
    let reads: Shared<Vec<(u64, u64, u64, &'static str)>> = shared(vec![]);
    // key -> reload id -> version installed by that reload (recorded by the caller of hot_reload)
    let installed: Shared<Vec<std::collections::BTreeMap<usize, u64>>> = shared(vec![Default::default(); w.nkeys]);
    let reloader_tid = detsim::thread_infos().iter().find(|t| t.name == "assets_hot_reload").map(|t| t.id).unwrap_or(usize::MAX);
    detsim::thread::scope(|s| {
        for (t, ops) in w.readers.iter().enumerate() {
            let gens = gens.clone();
            let polls = polls.clone();
            let reads = reads.clone();
            s.spawn(&format!("r{t}"), move || {
                for op in ops {
                    let key = match op {
                        ROp::Short(k) | ROp::Long(k, _) | ROp::Mapped(k, _) | ROp::Halves(k) | ROp::Copied(k) | ROp::Poll(k) => *k,
                    };
                    let id = format!("k{key}");
                    let h = cache.get_cached::<Big>(&id).unwrap();
                    let known = |v: u64| gens.lock().unwrap()[key].contains(&v);
                    match op {
                        ROp::Short(_) => {
                            let a = detsim::seq();
                            let v = {
                                let g = h.read();
                                g.check("short read")
                            };
                            let b = detsim::seq();
                            reads.lock().unwrap().push((h as *const _ as u64, a, b, "read()"));
                            detsim::check(known(v), "C07/unknown-generation", || format!("read version {v} of {id}, never written"));
                            let a = detsim::seq();
                            let n = h.cloned_len();
                            let b = detsim::seq();
                            let _ = n;
                            reads.lock().unwrap().push((h as *const _ as u64, a, b, "read().len"));
                        }
                        ROp::Long(_, n) | ROp::Mapped(_, n) => {
                            // the guard under test: plain, map, try_map (success path) or a downcast of the untyped guard
                            let (mapped, hold): (Option<AssetReadGuard<[u64]>>, Option<AssetReadGuard<Big>>) = if let ROp::Mapped(_, n) = op {
                                match n % 5 {
                                    0 => (Some(AssetReadGuard::map(h.read(), |b| &b.vec[..])), None),
                                    1 => (AssetReadGuard::try_map(h.read(), |b| Some(&b.vec[..])).ok(), None),
                                    2 => (None, Some(h.as_untyped().read().downcast::<Big>().ok().expect("downcast to the stored type"))),
                                    // the guard handed back by a *failed* projection / wrong-type downcast is still a guard
                                    3 => match AssetReadGuard::try_map(h.read(), |_| None::<&[u64]>) {
                                        Err(g) => (None, Some(g)),
                                        Ok(_) => unreachable!(),
                                    },
                                    _ => match h.as_untyped().read().downcast::<BigC>() {
                                        Err(g) => (None, Some(g.downcast::<Big>().ok().expect("downcast to the stored type after a failed one"))),
                                        Ok(_) => {
                                            detsim::fail("C13/wrong-type-view", format!("{id}: an untyped guard on a Big was downcast to BigC"));
                                        }
                                    },
                                }
                            } else {
                                (None, Some(h.read()))
                            };
                            // reference observations, taken through the guard itself
                            let v0 = match (&mapped, &hold) {
                                (Some(m), _) => m[0],
                                (_, Some(g)) => g.check("guard"),
                                _ => unreachable!(),
                            };
                            let id0 = rid_num(h.last_reload_id());
                            // the value behind the guard must stay alive: find its tracked id (only known through a typed guard)
                            let tid = hold.as_ref().map(|g| g.t.id);
                            if let Some(t) = tid {
                                ledger::pin(t);
                            }
                            for _ in 0..*n {
                                detsim::thread::yield_now();
                                let (v, ok) = match (&mapped, &hold) {
                                    (Some(m), _) => (m.first().copied().unwrap_or(v0), m.iter().all(|x| *x == v0)),
                                    (_, Some(g)) => (g.check("held guard"), g.ver == v0),
                                    _ => unreachable!(),
                                };
                                detsim::check(ok && v == v0, "C07/value-changed-under-guard", || format!("{id}: guard taken at version {v0}, later reads {v} through the same guard"));
                                let idn = rid_num(h.last_reload_id());
                                detsim::check(idn == id0, "C07/reload-id-changed-under-guard", || format!("{id}: reload id was {id0} when the guard was taken, {idn} while it is still alive"));
                                if let Some(tid) = tid {
                                    detsim::check(ledger::is_live(tid), "C07/value-dropped-under-guard", || format!("{id}: value #{tid} was dropped while a read guard is alive"));
                                }
                            }
                            if let Some(tid) = tid {
                                ledger::unpin(tid);
                            }
                            drop(mapped);
                            drop(hold);
                        }
                        ROp::Halves(_) => {
                            let g = h.read();
                            let a: Vec<u64> = g.words[..16].to_vec();
                            let id0 = rid_num(h.last_reload_id());
                            detsim::thread::yield_now();
                            let b: Vec<u64> = g.words[16..].to_vec();
                            detsim::check(a.iter().chain(b.iter()).all(|x| *x == a[0]) && g.ver == a[0], "C07/torn-read", || format!("{id}: first half {:?}.., second half {:?}.. under one guard", &a[..2], &b[..2]));
                            detsim::check(rid_num(h.last_reload_id()) == id0, "C07/reload-id-changed-under-guard", || format!("{id}: reload id moved under a guard"));
                        }
                        ROp::Copied(_) => {
                            let hc = cache.get_cached::<BigC>(&id).unwrap();
                            let a = detsim::seq();
                            let c = hc.copied();
                            let b = detsim::seq();
                            reads.lock().unwrap().push((hc as *const _ as u64, a, b, "copied()"));
                            detsim::check(c.0.iter().all(|x| *x == c.0[0]) && known(c.0[0]), "C07/torn-read", || format!("{id}: copied() returned a mixture {:?}", &c.0[..4]));
                        }
                        ROp::Poll(_) => {
                            // C06's reader: a value read after the watcher reported a reload is at least as new as that reload
                            let mut wch = h.reload_watcher();
                            for _ in 0..3 {
                                detsim::thread::yield_now();
                                if wch.reloaded() {
                                    let id_seen = rid_num(h.last_reload_id());
                                    let v = h.read().check("poll");
                                    polls.lock().unwrap().push((key, id_seen, v));
                                    detsim::count("reach.watcher_saw_reload");
                                }
                            }
                        }
                    }
                }
            });
        }
        if !w.static_mode {
            for (i, n) in w.co_callers.iter().enumerate() {
                let calls = calls.clone();
                let n = *n;
                s.spawn(&format!("co{i}"), move || {
                    for _ in 0..n {
                        let a = detsim::seq();
                        cache.hot_reload();
                        let b = detsim::seq();
                        calls.lock().unwrap().push((a, b));
                        detsim::count("reach.concurrent_hot_reload_caller");
                        detsim::thread::yield_now();
                    }
                });
            }
        }
        // the stream of reloads (main thread holds no guard)
        let mut ver = 1u64;
        for step in &w.reloads {
            for k in step {
                ver += 1;
                gens.lock().unwrap()[*k].push(ver);
                src.tree(|t| t.put(&format!("k{k}"), "big", format!("v{ver}").as_bytes()));
                src.notify(file_entry(&format!("k{k}"), "big"));
            }
            if !w.static_mode {
                let a = detsim::seq();
                cache.hot_reload();
                let b = detsim::seq();
                calls.lock().unwrap().push((a, b));
                // hot_reload does not return before the reloads it triggered are finished
                for k in step {
                    let h = cache.get_cached::<Big>(&format!("k{k}")).unwrap();
                    let v = h.read().ver;
                    let last = *gens.lock().unwrap()[*k].last().unwrap();
                    detsim::check(v == last, "C07/hot_reload-returned-early", || format!("k{k}: version {v} right after hot_reload returned, the notified content is {last}"));
                    installed.lock().unwrap()[*k].insert(rid_num(h.last_reload_id()), v);
                }
            } else {
                detsim::thread::yield_now();
            }
        }
    });
    // mutual exclusion at the seam: no complete read operation lies inside a write critical section of the same entry (hook H8)
    {
        let locked = detsim::probes_labelled("write_locked");
        let unlocking = detsim::probes_labelled("write_unlocking");
        for l in &locked {
            if let Some(u) = unlocking.iter().find(|u| u.val == l.val && u.seq > l.seq) {
                for (addr, a, b, what) in reads.lock().unwrap().iter() {
                    detsim::check(!(*addr == l.val && l.seq < *a && *b < u.seq), "C07/read-inside-write-section", || format!("a complete {what} [{a}..{b}] ran while the reloader held the entry for writing [{}..{}]: the reader did not take the lock", l.seq, u.seq));
                }
            }
        }
    }
    if !w.static_mode {
        let gens = gens.lock().unwrap();
        for (key, id_seen, v) in polls.lock().unwrap().iter() {
            if let Some(inst) = installed.lock().unwrap()[*key].get(id_seen) {
                let pos = |x: u64| gens[*key].iter().position(|g| *g == x);
                detsim::check(pos(*v) >= pos(*inst), "C07/stale-after-watcher", || format!("k{key}: a watcher reported a reload, the reload id was then {id_seen} (which installed version {inst}) but the value read afterwards is the older version {v}"));
            }
        }
        drop(gens);
        // (c) every change made by the reloader lies inside some hot_reload call; (d) nothing moves afterwards
        let calls = calls.lock().unwrap().clone();
        for (id, it) in ledger::snapshot() {
            if it.created_thread == reloader_tid {
                detsim::check(calls.iter().any(|c| c.0 < it.created_seq && it.created_seq < c.1), "C07/change-outside-hot_reload", || format!("value #{id} ({}) was created by the reloader at {} outside every hot_reload call {calls:?}", it.label, it.created_seq));
            }
            if it.state == ledger::LState::Dropped && it.dropped_thread == reloader_tid {
                detsim::check(calls.iter().any(|c| c.0 < it.dropped_seq && it.dropped_seq < c.1), "C07/change-outside-hot_reload", || format!("value #{id} ({}) was dropped by the reloader at {} outside every hot_reload call {calls:?}", it.label, it.dropped_seq));
            }
        }
        let before: Vec<(u64, usize)> = (0..w.nkeys).map(|k| { let h = cache.get_cached::<Big>(&format!("k{k}")).unwrap(); let v = h.read().ver; (v, rid_num(h.last_reload_id())) }).collect();
        detsim::quiesce();
        let after: Vec<(u64, usize)> = (0..w.nkeys).map(|k| { let h = cache.get_cached::<Big>(&format!("k{k}")).unwrap(); let v = h.read().ver; (v, rid_num(h.last_reload_id())) }).collect();
        detsim::check(before == after, "C07/change-outside-hot_reload", || format!("values/reload ids moved while no thread was inside hot_reload: {before:?} -> {after:?}"));
    } else {
        detsim::quiesce();
        for k in 0..w.nkeys {
            let h = cache.get_cached::<Big>(&format!("k{k}")).unwrap();
            let last = *gens.lock().unwrap()[k].last().unwrap();
            let v = h.read().check("final");
            detsim::check(v == last, "C07/static-not-converged", || format!("k{k}: version {v} at quiescence, last notified content {last}"));
        }
    }
}
