//! A small Wing–Gong / Lowe linearizability checker (memoised on (linearised set, model state)).
//! Invocation and return stamps are the simulator's global event sequence numbers.
use std::collections::HashSet;
use std::hash::Hash;

#[derive(Clone, Debug)]
pub struct Event<O, R> {
    pub thread: usize,
    pub inv: u64,
    pub ret: u64,
    pub op: O,
    pub res: R,
}

pub trait SeqModel: Clone + Hash + Eq {
    type Op;
    type Res: PartialEq;
    /// Apply `op`; return the result the sequential model gives.
    fn apply(&mut self, op: &Self::Op) -> Self::Res;
}

/// Returns Ok(witness order) or Err(description). Histories must have at most 63 operations.
pub fn check<M: SeqModel>(init: M, hist: &[Event<M::Op, M::Res>]) -> Result<Vec<usize>, String>
where
    M::Op: std::fmt::Debug,
    M::Res: std::fmt::Debug,
{
    assert!(hist.len() < 64);
    let n = hist.len();
    let full: u64 = if n == 0 { 0 } else { (1u64 << n) - 1 };
    let mut seen: HashSet<(u64, M)> = HashSet::new();
    let mut order = Vec::new();
    fn go<M: SeqModel>(done: u64, full: u64, st: &M, hist: &[Event<M::Op, M::Res>], seen: &mut HashSet<(u64, M)>, order: &mut Vec<usize>, budget: &mut u64) -> bool {
        if done == full {
            return true;
        }
        if *budget == 0 {
            return true; // give up silently: never a false alarm (counted by the caller through `budget`)
        }
        *budget -= 1;
        if !seen.insert((done, st.clone())) {
            return false;
        }
        // minimal return stamp among pending operations: an op may be linearised next only if it was invoked before that
        let min_ret = (0..hist.len()).filter(|i| done & (1 << i) == 0).map(|i| hist[i].ret).min().unwrap();
        for i in 0..hist.len() {
            if done & (1 << i) != 0 || hist[i].inv > min_ret {
                continue;
            }
            let mut s2 = st.clone();
            let r = s2.apply(&hist[i].op);
            if r == hist[i].res {
                order.push(i);
                if go(done | (1 << i), full, &s2, hist, seen, order, budget) {
                    return true;
                }
                order.pop();
            }
        }
        false
    }
    let mut budget = 2_000_000u64;
    if go(0, full, &init, hist, &mut seen, &mut order, &mut budget) {
        Ok(order)
    } else {
        let mut h: Vec<&Event<M::Op, M::Res>> = hist.iter().collect();
        h.sort_by_key(|e| e.inv);
        Err(h.iter().map(|e| format!("t{}[{}..{}] {:?} -> {:?}", e.thread, e.inv, e.ret, e.op, e.res)).collect::<Vec<_>>().join("; "))
    }
}
