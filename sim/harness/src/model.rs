//! Executable reference models (DESIGN §6.4): the map model, the load model and the dependency model,
//! over the same type tags and recipes the real harness assets interpret.
use crate::recipe::{Ins, Kind, Ty};
use crate::world::*;
use std::collections::{BTreeMap, BTreeSet};

pub type Key = (Ty, String);
#[derive(Clone, Debug, PartialEq, Eq, PartialOrd, Ord, Hash)]
pub enum Dep {
    File(String, String),
    Dir(String),
    Asset(Ty, String),
}
#[derive(Clone, Debug, PartialEq)]
pub struct MEntry {
    pub show: String,
    pub reload: usize,
    pub dynamic: bool,
}
#[derive(Clone, Debug, PartialEq)]
pub enum Stop {
    /// error class (the id is attached by the enclosing load)
    Err(String),
    Panic,
}
#[derive(Clone, Debug, PartialEq)]
pub enum LoadErr {
    /// E(id;class)
    Err(String),
    Panic,
}
impl LoadErr {
    pub fn show(&self) -> String {
        match self {
            LoadErr::Err(s) => s.clone(),
            LoadErr::Panic => "PANIC".into(),
        }
    }
}

#[derive(Clone, Debug, Default)]
pub struct Model {
    pub tree: Tree,
    /// the cache has a reloader
    pub hot: bool,
    pub cache: BTreeMap<Key, MEntry>,
    /// dependency sets registered with the reloader (its graph is never pruned)
    pub reg: BTreeMap<Key, BTreeSet<Dep>>,
    /// every node the reloader's graph knows
    pub nodes: BTreeSet<Dep>,
    rec: Vec<Option<BTreeSet<Dep>>>,
    /// false while evaluating "what would a fresh load give": nested loads of uncached assets are evaluated but not cached
    pub side: bool,
    /// a nested load of an uncached asset happened during a side-effect-free evaluation
    pub ambiguous: bool,
    /// one-shot faults by loader invocation index (mirrors RunCtx)
    pub loader_calls: u64,
    pub loader_plan: BTreeMap<u64, LoaderFault>,
}

pub fn leaf_show(ext: &str, bytes: &[u8]) -> String {
    format!("L({}|{})", ext, lossy(bytes))
}

impl Model {
    pub fn new(tree: Tree, hot: bool) -> Model {
        Model { tree, hot, side: true, ..Default::default() }
    }
    fn note(&mut self, d: Dep) {
        if !self.hot {
            return;
        }
        if let Some(Some(r)) = self.rec.last_mut() {
            r.insert(d);
        }
    }
    fn read(&mut self, id: &str, ext: &str) -> Result<Vec<u8>, IoKind> {
        self.note(Dep::File(id.to_string(), ext.to_string()));
        match self.tree.files.get(&fkey(id, ext)) {
            None => Err(IoKind::NotFound),
            Some(FileSt::Unreadable(k)) => Err(*k),
            Some(FileSt::Data(d)) => Ok(materialize(d)),
        }
    }
    fn read_dir(&mut self, id: &str) -> Result<Vec<(bool, String, String)>, IoKind> {
        self.note(Dep::Dir(id.to_string()));
        if let Some(k) = self.tree.bad_dirs.get(id) {
            return Err(*k);
        }
        if !self.tree.has_dir(id) {
            return Err(IoKind::NotFound);
        }
        Ok(self.tree.children(id))
    }
    pub fn register(&mut self, k: &Key, deps: BTreeSet<Dep>) {
        for d in &deps {
            self.nodes.insert(d.clone());
        }
        self.nodes.insert(Dep::Asset(k.0, k.1.clone()));
        self.reg.insert(k.clone(), deps);
    }
    /// `Cache::get_cached_entry_inner`
    pub fn get_cached(&mut self, ty: Ty, id: &str) -> Option<MEntry> {
        if ty.hot() {
            self.note(Dep::Asset(ty, id.to_string()));
        }
        self.cache.get(&(ty, id.to_string())).cloned()
    }
    pub fn contains(&self, ty: Ty, id: &str) -> bool {
        self.cache.contains_key(&(ty, id.to_string()))
    }
    /// `load_and_record`: returns the value and whether the entry is dynamic
    fn load_and_record(&mut self, ty: Ty, id: &str) -> Result<String, LoadErr> {
        let recorded = ty.hot() && self.hot;
        if recorded {
            self.rec.push(Some(BTreeSet::new()));
        }
        let r = self.raw_load(ty, id);
        let deps = if recorded { self.rec.pop().unwrap() } else { None };
        match r {
            Ok(s) => {
                if let Some(d) = deps {
                    self.register(&(ty, id.to_string()), d);
                }
                Ok(s)
            }
            Err(Stop::Err(class)) => Err(LoadErr::Err(format!("E({id};{class})"))),
            Err(Stop::Panic) => Err(LoadErr::Panic),
        }
    }
    /// `Cache::load_entry`
    pub fn load(&mut self, ty: Ty, id: &str) -> Result<String, LoadErr> {
        if let Some(e) = self.get_cached(ty, id) {
            return Ok(e.show);
        }
        let s = self.load_and_record(ty, id)?;
        if self.side {
            let dynamic = ty.hot() && self.hot;
            // first insertion wins: the load itself may have stored a value under its own key
            let e = self.cache.entry((ty, id.to_string())).or_insert(MEntry { show: s.clone(), reload: 0, dynamic });
            return Ok(e.show.clone());
        }
        self.ambiguous = true;
        Ok(s)
    }
    /// `Cache::load_owned_entry`
    pub fn load_owned(&mut self, ty: Ty, id: &str) -> Result<String, LoadErr> {
        if ty.hot() {
            self.note(Dep::Asset(ty, id.to_string()));
        }
        self.load_and_record(ty, id)
    }
    /// `get_or_insert` with a value the caller describes by its show string
    pub fn get_or_insert(&mut self, ty: Ty, id: &str, show: &str) -> String {
        if let Some(e) = self.get_cached(ty, id) {
            return e.show;
        }
        // a value added with get_or_insert is never reloaded (C10), whatever its type
        self.cache.insert((ty, id.to_string()), MEntry { show: show.to_string(), reload: 0, dynamic: false });
        show.to_string()
    }
    pub fn remove(&mut self, ty: Ty, id: &str) -> Option<MEntry> {
        self.cache.remove(&(ty, id.to_string()))
    }

    /// `T::load`
    fn raw_load(&mut self, ty: Ty, id: &str) -> Result<String, Stop> {
        match ty.kind() {
            Kind::Leaf => self.leaf_load(ty, id),
            Kind::Rec => self.rec_load(id),
            Kind::Dir => {
                let listing = self.read_dir(id).map_err(|k| Stop::Err(format!("io:{k:?}")))?;
                let exts = ty.exts();
                let mut ids: Vec<String> = listing.into_iter().filter(|(d, _, e)| !*d && exts.contains(&e.as_str())).map(|x| x.1).collect();
                ids.sort();
                ids.dedup();
                Ok(format!("D[{}]", ids.join(",")))
            }
            Kind::RDir => {
                let own = match self.load(ty.dir_of(), id) {
                    Ok(s) => s,
                    Err(LoadErr::Err(e)) => return Err(Stop::Err(format!("nested:{e}"))),
                    Err(LoadErr::Panic) => return Err(Stop::Panic),
                };
                let mut ids: Vec<String> = own.trim_start_matches("D[").trim_end_matches(']').split(',').filter(|s| !s.is_empty()).map(|s| s.to_string()).collect();
                let listing = self.read_dir(id).map_err(|k| Stop::Err(format!("io:{k:?}")))?;
                for (is_dir, cid, _) in listing {
                    if is_dir {
                        match self.load(ty, &cid) {
                            Ok(s) => ids.extend(s.trim_start_matches("RD[").trim_end_matches(']').split(',').filter(|s| !s.is_empty()).map(|s| s.to_string())),
                            Err(LoadErr::Panic) => return Err(Stop::Panic),
                            Err(_) => {}
                        }
                    }
                }
                Ok(format!("RD[{}]", ids.join(",")))
            }
        }
    }
    fn leaf_load(&mut self, ty: Ty, id: &str) -> Result<String, Stop> {
        // ErrorKind::or, folded as `new.or(acc)`
        #[derive(Clone, Debug)]
        enum E {
            NoDefault,
            Io(IoKind),
            /// decoding error; Some(kind) when the loader's error value happens to be an io::Error of that kind
            Conv(Option<IoKind>),
        }
        let mut acc = E::NoDefault;
        for ext in ty.exts() {
            let new = match self.read(id, ext) {
                Err(k) => E::Io(k),
                Ok(bytes) => {
                    let k = self.loader_calls;
                    self.loader_calls += 1;
                    match self.loader_plan.get(&k) {
                        Some(LoaderFault::Panic) => return Err(Stop::Panic),
                        Some(LoaderFault::Err) => E::Conv(None),
                        None => {
                            if bytes.starts_with(b"!bad-nf") {
                                E::Conv(Some(IoKind::NotFound))
                            } else if bytes.starts_with(b"!bad-io") {
                                E::Conv(Some(IoKind::InvalidData))
                            } else if bytes.starts_with(b"!bad") {
                                E::Conv(None)
                            } else {
                                return Ok(leaf_show(ext, &bytes));
                            }
                        }
                    }
                }
            };
            acc = match (new, acc) {
                (E::NoDefault, other) => other,
                (E::Io(_), other @ E::Conv(_)) => other,
                (E::Io(IoKind::NotFound), other @ E::Io(_)) => other,
                (this, _) => this,
            };
        }
        if ty.has_default() {
            return Ok("L(default)".to_string());
        }
        Err(Stop::Err(match acc {
            E::NoDefault => "nodefault".to_string(),
            E::Io(k) => format!("io:{k:?}"),
            E::Conv(None) => "conv".to_string(),
            E::Conv(Some(k)) => format!("io:{k:?}"),
        }))
    }
    fn rec_load(&mut self, id: &str) -> Result<String, Stop> {
        let text = self.read(id, "rc").map_err(|k| Stop::Err(format!("io:{k:?}")))?;
        let text = String::from_utf8(text).map_err(|_| Stop::Err("badrecipe".into()))?;
        let recipe: Vec<Ins> = serde_json::from_str(&text).map_err(|_| Stop::Err("badrecipe".into()))?;
        let mut out = vec![];
        for ins in &recipe {
            self.run(ins, &mut out, false)?;
        }
        Ok(format!("R[{}]", out.join(";")))
    }
    fn show_res(r: Result<String, LoadErr>) -> Result<String, Stop> {
        match r {
            Ok(s) => Ok(format!("ok:{s}")),
            Err(LoadErr::Err(e)) => Ok(format!("err:{e}")),
            Err(LoadErr::Panic) => Err(Stop::Panic),
        }
    }
    fn run(&mut self, ins: &Ins, out: &mut Vec<String>, masked: bool) -> Result<(), Stop> {
        let mark = |s: String| if masked { format!("~{s}") } else { s };
        match ins {
            Ins::Load(ty, id) => {
                let s = Self::show_res(self.load(*ty, id))?;
                out.push(mark(s));
            }
            Ins::LoadQ(ty, id) => match self.load(*ty, id) {
                Ok(s) => out.push(mark(format!("ok:{s}"))),
                Err(LoadErr::Err(e)) => return Err(Stop::Err(format!("nested:{e}"))),
                Err(LoadErr::Panic) => return Err(Stop::Panic),
            },
            Ins::Cached(ty, id) => {
                let s = match self.get_cached(*ty, id) {
                    Some(e) => format!("some:{}", e.show),
                    None => "none".into(),
                };
                out.push(mark(s));
            }
            Ins::Owned(ty, id) => {
                let s = Self::show_res(self.load_owned(*ty, id))?;
                out.push(mark(s));
            }
            Ins::Insert(ty, id, n) => {
                let show = match ty.kind() {
                    Kind::Rec => format!("R[ins{n}]"),
                    _ => format!("L(ins|ins{n})"),
                };
                let s = if self.side {
                    self.get_or_insert(*ty, id, &show)
                } else {
                    // side-effect free evaluation: what the look-up would return, or the placeholder
                    self.ambiguous |= !self.contains(*ty, id);
                    self.get_cached(*ty, id).map(|e| e.show).unwrap_or(show)
                };
                out.push(mark(format!("ins:{s}")));
            }
            Ins::Read(id, ext) => {
                let s = match self.read(id, ext) {
                    Ok(b) => format!("ok:{}", lossy(&b)),
                    Err(k) => format!("err:io:{k:?}"),
                };
                out.push(mark(s));
            }
            Ins::ReadDir(id) => {
                let s = match self.read_dir(id) {
                    Ok(l) => {
                        let mut v: Vec<String> = l.into_iter().map(|(d, i, e)| if d { format!("d:{i}") } else { format!("f:{i}/{e}") }).collect();
                        v.sort();
                        format!("ok:[{}]", v.join(","))
                    }
                    Err(k) => format!("err:io:{k:?}"),
                };
                out.push(mark(s));
            }
            Ins::NoRec(v) | Ins::Thread(v) => {
                // no_record installs "no recorder"; a helper thread has none of its own
                self.rec.push(None);
                let mut r = Ok(());
                let is_thread = matches!(ins, Ins::Thread(_));
                let mut local = vec![];
                for i in v {
                    r = self.run(i, if is_thread { &mut local } else { out }, true);
                    if r.is_err() {
                        break;
                    }
                }
                self.rec.pop();
                if is_thread {
                    match r {
                        Ok(()) => out.extend(local),
                        // an error or panic on the helper thread is reported to the loading thread as a failure
                        Err(_) => return Err(Stop::Err("fail".into())),
                    }
                } else {
                    r?;
                }
            }
            Ins::Other(..) => out.push("~other".into()),
            Ins::Catch(v) => {
                for i in v {
                    match self.run(i, out, masked) {
                        Ok(()) => {}
                        Err(Stop::Panic) => {
                            out.push("caught".into());
                            break;
                        }
                        Err(e) => return Err(e),
                    }
                }
            }
            Ins::Fail => return Err(Stop::Err("fail".into())),
            Ins::Panic => return Err(Stop::Panic),
            Ins::Val(n) => out.push(format!("v{n}")),
        }
        Ok(())
    }

    // ------------------------------------------------------------------ reload semantics
    /// Entries the reloader accepts (they name a node of its graph).
    pub fn accepted(&self, notified: &BTreeSet<Dep>) -> BTreeSet<Dep> {
        notified.iter().filter(|d| self.nodes.contains(*d)).cloned().collect()
    }
    /// Reverse closure over the registered dependency sets: the assets an update pass visits.
    pub fn affected(&self, accepted: &BTreeSet<Dep>) -> BTreeSet<Key> {
        let mut aff: BTreeSet<Key> = BTreeSet::new();
        let mut frontier: Vec<Dep> = accepted.iter().cloned().collect();
        while let Some(d) = frontier.pop() {
            for (k, deps) in &self.reg {
                if deps.contains(&d) && aff.insert(k.clone()) {
                    frontier.push(Dep::Asset(k.0, k.1.clone()));
                }
            }
        }
        aff
    }
    /// What would `T::load` give now, against the current source and current cache, and which dependencies would it record?
    /// Side-effect free on `self`; registrations that nested (uncached) loads would perform are returned in the clone.
    pub fn fresh(&self, ty: Ty, id: &str) -> (Result<String, LoadErr>, BTreeSet<Dep>, Model) {
        let mut m = self.clone();
        m.side = false;
        m.ambiguous = false;
        m.rec.clear();
        m.rec.push(Some(BTreeSet::new()));
        let r = m.raw_load(ty, id);
        let deps = m.rec.pop().unwrap().unwrap_or_default();
        let r = match r {
            Ok(s) => Ok(s),
            Err(Stop::Err(c)) => Err(LoadErr::Err(format!("E({id};{c})"))),
            Err(Stop::Panic) => Err(LoadErr::Panic),
        };
        (r, deps, m)
    }
}

/// Compare a real value with a freshly evaluated one; observations marked `~` (made through an unrecorded channel) are don't-care.
pub fn masked_eq(a: &str, b: &str) -> bool {
    if a == b {
        return true;
    }
    fn strip(s: &str) -> String {
        // drop every "~..." observation up to the next top-level ';' or ']' of the enclosing list
        let mut out = String::new();
        let mut depth: i32 = 0;
        let mut skip: Option<i32> = None;
        for c in s.chars() {
            match c {
                '[' | '(' => depth += 1,
                ']' | ')' => {
                    if let Some(d) = skip {
                        if depth == d {
                            skip = None;
                        }
                    }
                    depth -= 1;
                }
                ';' => {
                    if let Some(d) = skip {
                        if depth == d {
                            skip = None;
                        }
                    }
                }
                '~' if skip.is_none() => {
                    skip = Some(depth);
                    out.push('~');
                }
                _ => {}
            }
            if skip.is_none() || c == ';' && skip.is_none() {
                if c != '~' {
                    out.push(c);
                }
            }
        }
        out
    }
    strip(a) == strip(b)
}
