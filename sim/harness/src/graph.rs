//! Dependency-graph scenarios shared by C05 (convergence), C06 (precision, reload ids, watchers) and C14 (attribution):
//! recipe compounds over a generated tree, rounds of edits + notifications + barrier, checked by the fixpoint oracle
//! against the dependency model (DESIGN §6.4).
use crate::hist::*;
use crate::model::{Dep, Key, LoadErr, Model};
use crate::props::c18::rid_num;
use crate::recipe::*;
use crate::with_ty;
use crate::world::*;
use assets_manager::{AssetCache, ReloadWatcher};
use detsim::SplitMix;
use serde::{Deserialize, Serialize};
use std::collections::{BTreeMap, BTreeSet};

#[derive(Clone, Debug, Serialize, Deserialize, PartialEq)]
pub enum GEdit {
    /// new content for an existing or new file; `create` says whether the file was absent (directory notification too)
    Put(String, String, String),
    Del(String, String),
    PutRc(String, Vec<Ins>),
    /// edit that is never notified
    Silent(String, String, String),
    /// notification for an entry nobody read / that does not exist
    Noise(String, String),
}
#[derive(Clone, Copy, Debug, Serialize, Deserialize, PartialEq)]
pub enum Delivery {
    Single,
    Batched,
    Duplicated,
    OtherThread,
    /// one hot_reload per notification
    BarrierEach,
}
#[derive(Clone, Debug, Serialize, Deserialize)]
pub struct GRound {
    pub edits: Vec<GEdit>,
    pub delivery: Delivery,
    /// cache operations between the barrier of the previous round and the edits of this one
    pub ops: Vec<HOp>,
    /// loads made after the notifications were sent *and consumed by the reloader* but before the barrier: what they
    /// cache is fresh already and must not be rewritten by the pass on account of those earlier notifications
    #[serde(default)]
    pub late_ops: Vec<HOp>,
}
#[derive(Clone, Debug, Serialize, Deserialize)]
pub struct GWork {
    /// report the known F-C05b shape (a dependency gained during a pass and refreshed later in the same pass) as a
    /// violation of convergence (C05) or skip such rounds (C06 / C14, whose clauses it does not concern)
    #[serde(default)]
    pub report_gained: bool,
    pub tree: Tree,
    pub static_mode: bool,
    pub initial: Vec<(Ty, String)>,
    pub rounds: Vec<GRound>,
    /// recipes may use Thread / Other instructions (a second hot cache is created)
    pub with_helpers: bool,
}

pub struct GenOpts {
    pub helpers: bool,
    pub single_entry_rounds: bool,
    pub max_rounds: u64,
}

fn gen_recipe_h(g: &mut SplitMix, u: &Universe, owner: usize, helpers: bool) -> Vec<Ins> {
    let mut r = gen_recipe(g, u, 2, owner);
    // no panics / hard failures half of the time: more successful loads, deeper graphs
    if g.chance(1, 2) {
        r.retain(|i| !matches!(i, Ins::Panic | Ins::Fail));
    }
    if helpers {
        for _ in 0..g.below(3) {
            let ins = match g.below(3) {
                0 => Ins::Thread((0..1 + g.below(2)).map(|_| gen_ins(g, u, 0, owner)).filter(|i| !matches!(i, Ins::Panic)).collect()),
                1 => Ins::Other(0, g.pick(&u.ids).clone(), g.pick(&["a", "b"]).to_string()),
                _ => Ins::NoRec((0..1 + g.below(2)).map(|_| gen_ins(g, u, 1, owner)).collect()),
            };
            let at = g.below(r.len() as u64 + 1) as usize;
            r.insert(at, ins);
        }
    }
    r
}

pub fn generate(g: &mut SplitMix, o: &GenOpts) -> GWork {
    let u = universe();
    let mut tree = Tree::default();
    tree.order_seed = g.next() | 1;
    for id in &u.ids {
        for ext in ["a", "b", "c", ""] {
            if g.chance(1, 2) {
                tree.put(id, ext, format!("{id}.{ext}#0").as_bytes());
            }
        }
    }
    for (i, id) in u.ids.iter().enumerate() {
        if g.chance(3, 4) {
            let r = gen_recipe_h(g, &u, i, o.helpers);
            tree.put(id, "rc", serde_json::to_string(&r).unwrap().as_bytes());
        }
    }
    tree.dirs.insert("d".into());
    if g.chance(1, 2) {
        tree.dirs.insert("d.e".into());
    }
    let initial = (0..2 + g.below(6))
        .map(|_| {
            let ty = match g.below(6) {
                0 | 1 | 2 => *g.pick(&[Ty::RA, Ty::RB, Ty::ArcRA]),
                3 => *g.pick(&[Ty::DirLA, Ty::DirLAB, Ty::RDirLA, Ty::RDirLAB]),
                _ => gen_ty(g),
            };
            (ty, gen_id(g, &u, ty))
        })
        .collect();
    let mut ver = 0u64;
    let rounds = (0..1 + g.below(o.max_rounds))
        .map(|_| {
            let n = if o.single_entry_rounds { 1 } else { 1 + g.below(4) };
            let edits = (0..n)
                .map(|_| {
                    ver += 1;
                    let id = g.pick(&u.ids).clone();
                    let ext = g.pick(&["a", "b", "c", ""]).to_string();
                    match g.below(12) {
                        0..=4 => GEdit::Put(id, ext, format!("v{ver}")),
                        5 => GEdit::Put(id, ext, "!bad".into()),
                        6 => GEdit::Del(id, ext),
                        7 | 8 => {
                            let i = g.below(u.ids.len() as u64) as usize;
                            GEdit::PutRc(u.ids[i].clone(), gen_recipe_h(g, &u, i, o.helpers))
                        }
                        9 if !o.single_entry_rounds => GEdit::Silent(id, ext, format!("silent{ver}")),
                        // a notification for something nobody has read (yet): an unknown name, or a real file that may be loaded later
                        10 if !o.single_entry_rounds => {
                            if g.chance(1, 2) {
                                GEdit::Noise(format!("nobody{ver}"), "a".into())
                            } else {
                                GEdit::Noise(id, ext)
                            }
                        }
                        _ => GEdit::Put(id, ext, format!("v{ver}")),
                    }
                })
                .collect();
            let delivery = match g.below(8) {
                0 | 1 | 2 | 3 => Delivery::Single,
                4 => Delivery::Batched,
                5 => Delivery::Duplicated,
                6 => Delivery::OtherThread,
                _ => Delivery::BarrierEach,
            };
            let ops = (0..g.below(3))
                .map(|_| {
                    let ty = gen_ty(g);
                    let id = gen_id(g, &u, ty);
                    match g.below(6) {
                        0 | 1 => HOp::Load(ty, id, g.chance(1, 3)),
                        2 => HOp::Cached(ty, id, false),
                        3 => HOp::Owned(ty, id, false),
                        4 => HOp::Remove(ty, id),
                        _ => HOp::Load(ty, id, false),
                    }
                })
                .collect();
            let late_ops = if g.chance(1, 4) {
                (0..1 + g.below(2))
                    .map(|_| {
                        let ty = gen_ty(g);
                        HOp::Load(ty, gen_id(g, &u, ty), false)
                    })
                    .collect()
            } else {
                vec![]
            };
            GRound { edits, delivery, ops, late_ops }
        })
        .collect();
    GWork { report_gained: false, tree, static_mode: !o.single_entry_rounds && g.chance(1, 4), initial, rounds, with_helpers: o.helpers }
}

pub fn shrink(w: &GWork) -> Vec<GWork> {
    let mut out = vec![];
    for r in (0..w.rounds.len()).rev() {
        if w.rounds.len() > 1 {
            let mut x = w.clone();
            x.rounds.remove(r);
            out.push(x);
        }
    }
    for r in 0..w.rounds.len() {
        for e in 0..w.rounds[r].edits.len() {
            if w.rounds[r].edits.len() > 1 {
                let mut x = w.clone();
                x.rounds[r].edits.remove(e);
                out.push(x);
            }
        }
        for o in 0..w.rounds[r].ops.len() {
            let mut x = w.clone();
            x.rounds[r].ops.remove(o);
            out.push(x);
        }
        for o in 0..w.rounds[r].late_ops.len() {
            let mut x = w.clone();
            x.rounds[r].late_ops.remove(o);
            out.push(x);
        }
        if w.rounds[r].delivery != Delivery::Single {
            let mut x = w.clone();
            x.rounds[r].delivery = Delivery::Single;
            out.push(x);
        }
    }
    for i in 0..w.initial.len() {
        if w.initial.len() > 1 {
            let mut x = w.clone();
            x.initial.remove(i);
            out.push(x);
        }
    }
    for k in w.tree.files.keys() {
        let mut x = w.clone();
        x.tree.files.remove(k);
        out.push(x);
    }
    // simplify recipes: drop one instruction
    for (k, v) in &w.tree.files {
        if k.ends_with("/rc") {
            if let FileSt::Data(d) = v {
                if let Ok(r) = serde_json::from_slice::<Vec<Ins>>(d) {
                    for i in 0..r.len() {
                        let mut r2 = r.clone();
                        r2.remove(i);
                        let mut x = w.clone();
                        x.tree.files.insert(k.clone(), FileSt::Data(serde_json::to_vec(&r2).unwrap()));
                        out.push(x);
                    }
                }
            }
        }
    }
    out
}

type Snap = BTreeMap<Key, (String, usize)>;
fn snapshot(cache: &AssetCache<SimSource>, u: &Universe) -> Snap {
    let mut m = BTreeMap::new();
    let any = cache.as_any_cache();
    for id in u.ids.iter().chain(u.dirs.iter()) {
        for ty in ALL_TYS {
            if any_contains(any, ty, id) {
                if let Some((s, rid, _)) = any_peek(any, ty, id) {
                    m.insert((ty, id.clone()), (s, rid));
                }
            }
        }
    }
    m
}

/// Runs the scenario; violation rules are prefixed with `graph/`.
pub fn scenario(w: GWork) {
    let u = universe();
    let src = SimSource::new(w.tree.clone(), HotMode::Custom, 3);
    let cache: &'static mut AssetCache<SimSource> = Box::leak(Box::new(AssetCache::with_source(src.clone())));
    let other_src = SimSource::new(w.tree.clone(), HotMode::Custom, 1);
    let other: &'static AssetCache<SimSource> = Box::leak(Box::new(AssetCache::with_source(other_src.clone())));
    run_ctx(|c| {
        c.caches.clear();
        c.caches.push(&*cache as *const _ as usize);
        c.caches.push(other as *const _ as usize);
    });
    let mut model = Model::new(w.tree.clone(), true);
    let reloader_tid = detsim::thread_infos().iter().find(|t| t.name == "assets_hot_reload").map(|t| t.id).unwrap_or(usize::MAX);
    let do_op = |cache: &mut AssetCache<SimSource>, model: &mut Model, op: &HOp, what: &str| {
        let exp = match op {
            HOp::Load(ty, id, _) => Some(model.load(*ty, id)),
            HOp::Owned(ty, id, _) => Some(model.load_owned(*ty, id)),
            _ => None,
        };
        let caught = detsim::reraise_abort(std::panic::catch_unwind(std::panic::AssertUnwindSafe(|| match op {
            HOp::Load(ty, id, any) => Some(if *any { any_load(cache.as_any_cache(), *ty, id) } else { with_ty!(*ty, T, cache.load::<T>(id).map(|h| h.read().show())) }),
            HOp::Owned(ty, id, _) => Some(any_owned(cache.as_any_cache(), *ty, id)),
            _ => None,
        })));
        match op {
            HOp::Load(..) | HOp::Owned(..) => {
                let got = match caught {
                    Ok(Some(Ok(s))) => Ok(s),
                    Ok(Some(Err(e))) => Err(LoadErr::Err(err_show(&e))),
                    _ => Err(LoadErr::Panic),
                };
                let exp = exp.unwrap();
                detsim::check(got == exp, "graph/load-differs-from-model", || format!("{what} {op:?}: returned {got:?}, the model says {exp:?}"));
            }
            HOp::Cached(ty, id, _) => {
                let got = any_cached(cache.as_any_cache(), *ty, id);
                let exp = model.get_cached(*ty, id).map(|e| e.show);
                detsim::check(got == exp, "graph/load-differs-from-model", || format!("{what} {op:?}: returned {got:?}, the model says {exp:?}"));
            }
            HOp::Remove(ty, id) => {
                let got = with_ty!(*ty, T, cache.remove::<T>(id));
                let exp = model.remove(*ty, id).is_some();
                detsim::check(got == exp, "graph/load-differs-from-model", || format!("{what} {op:?}: returned {got}, the model says {exp}"));
            }
            _ => {}
        }
    };
    for (ty, id) in &w.initial {
        do_op(cache, &mut model, &HOp::Load(*ty, id.clone(), false), "initial");
    }
    if w.static_mode {
        let c: &'static AssetCache<SimSource> = unsafe { &*(cache as *const AssetCache<SimSource>) };
        c.enhance_hot_reloading();
        detsim::quiesce();
    }
    for (ri, round) in w.rounds.iter().enumerate() {
        for op in &round.ops {
            do_op(cache, &mut model, op, &format!("round {ri}"));
        }
        // watchers and global flags are armed before the edits (C06)
        let before = snapshot(cache, &u);
        let start = before.clone();
        let mut watchers: BTreeMap<Key, ReloadWatcher> = BTreeMap::new();
        for (ty, id) in before.keys() {
            let wch = with_ty!(*ty, T, cache.get_cached::<T>(id).map(|h| {
                let _ = h.reloaded_global();
                h.reload_watcher()
            }));
            if let Some(wch) = wch {
                // SAFETY of lifetimes: the cache is leaked
                watchers.insert((*ty, id.clone()), unsafe { std::mem::transmute::<ReloadWatcher<'_>, ReloadWatcher<'static>>(wch) });
            }
        }
        // edits, made after every load returned; each produces the notifications a correct watcher would send
        let mut notes: Vec<Dep> = vec![];
        for e in &round.edits {
            fn both(src: &SimSource, model: &mut Model, f: &dyn Fn(&mut Tree)) {
                src.tree(|t| f(t));
                f(&mut model.tree);
            }
            match e {
                GEdit::Put(id, ext, data) | GEdit::Silent(id, ext, data) => {
                    let existed = model.tree.files.contains_key(&fkey(id, ext));
                    both(&src, &mut model, &|t| t.put(id, ext, data.as_bytes()));
                    if matches!(e, GEdit::Put(..)) {
                        notes.push(Dep::File(id.clone(), ext.clone()));
                        if !existed {
                            notes.push(Dep::Dir(parent_id(id).unwrap_or("").to_string()));
                        }
                    } else {
                        detsim::count("fault.edit_never_notified");
                    }
                }
                GEdit::Del(id, ext) => {
                    let existed = model.tree.files.contains_key(&fkey(id, ext));
                    both(&src, &mut model, &|t| {
                        t.files.remove(&fkey(id, ext));
                    });
                    if existed {
                        notes.push(Dep::File(id.clone(), ext.clone()));
                        notes.push(Dep::Dir(parent_id(id).unwrap_or("").to_string()));
                    }
                }
                GEdit::PutRc(id, r) => {
                    let existed = model.tree.files.contains_key(&fkey(id, "rc"));
                    let text = serde_json::to_string(r).unwrap();
                    both(&src, &mut model, &|t| t.put(id, "rc", text.as_bytes()));
                    notes.push(Dep::File(id.clone(), "rc".into()));
                    if !existed {
                        notes.push(Dep::Dir(parent_id(id).unwrap_or("").to_string()));
                    }
                }
                GEdit::Noise(id, ext) => {
                    notes.push(Dep::File(id.clone(), ext.clone()));
                    detsim::count("fault.unrelated_notification");
                }
            }
        }
        let to_entry = |d: &Dep| match d {
            Dep::File(i, e) => file_entry(i, e),
            Dep::Dir(i) => dir_entry(i),
            Dep::Asset(..) => unreachable!(),
        };
        // during a plain barrier a polling reader watches one reloadable asset: `if watcher.reloaded() { read }`
        let poll_key: Option<Key> = before.keys().filter(|k| model.cache.get(*k).map(|e| e.dynamic).unwrap_or(false)).nth(ri % 3).cloned();
        let polls: std::sync::Arc<std::sync::Mutex<Vec<(usize, String)>>> = Default::default();
        let barrier = |cache: &AssetCache<SimSource>| {
            if w.static_mode {
                detsim::quiesce();
            } else if let Some((ty, id)) = &poll_key {
                let polls = polls.clone();
                detsim::thread::scope(|s| {
                    s.spawn("poller", move || {
                        with_ty!(*ty, T, {
                            if let Some(h) = cache.get_cached::<T>(id) {
                                let mut wch = h.reload_watcher();
                                for _ in 0..4 {
                                    detsim::thread::yield_now();
                                    if wch.reloaded() {
                                        let seen = rid_num(h.last_reload_id());
                                        let v = h.read().show();
                                        polls.lock().unwrap().push((seen, v));
                                    }
                                }
                            }
                        })
                    });
                    cache.hot_reload();
                });
            } else {
                cache.hot_reload();
            }
        };
        match round.delivery {
            Delivery::Single => notes.iter().for_each(|n| {
                src.notify(to_entry(n));
            }),
            Delivery::Batched => {
                detsim::count("fault.batched_notifications");
                src.notify_many(notes.iter().map(to_entry).collect());
            }
            Delivery::Duplicated => {
                detsim::count("fault.duplicated_notifications");
                for n in &notes {
                    src.notify(to_entry(n));
                    src.notify(to_entry(n));
                }
            }
            Delivery::OtherThread => {
                let (s2, es): (SimSource, Vec<_>) = (src.clone(), notes.iter().map(to_entry).collect());
                let _ = detsim::thread::spawn_named("notifier".into(), move || es.into_iter().for_each(|e| { s2.notify(e); })).join();
            }
            Delivery::BarrierEach if w.static_mode => notes.iter().for_each(|n| {
                src.notify(to_entry(n));
            }),
            Delivery::BarrierEach => {}
        }
        let each = round.delivery == Delivery::BarrierEach && !w.static_mode;
        // which notifications the reloader accepts is decided when it handles them: now (everything loaded so far is registered)
        let accepted_now = model.accepted(&notes.iter().cloned().collect());
        if !each && !w.static_mode && !round.late_ops.is_empty() {
            detsim::quiesce();
            for op in &round.late_ops {
                do_op(cache, &mut model, op, &format!("round {ri} (after the notifications)"));
            }
            detsim::count("reach.load_between_notification_and_pass");
        }
        let before = if round.late_ops.is_empty() || each || w.static_mode { before } else { snapshot(cache, &u) };
        let groups: Vec<Vec<Dep>> = if each { notes.iter().map(|n| vec![n.clone()]).collect() } else { vec![notes.clone()] };
        let mut before = before;
        for group in groups {
            if each {
                src.notify(to_entry(&group[0]));
            }
            barrier(cache);
            let after = snapshot(cache, &u);
            let notified: BTreeSet<Dep> = group.iter().cloned().collect();
            let accepted: BTreeSet<Dep> = if each { model.accepted(&notified) } else { accepted_now.clone() };
            // C06: a value read after a watcher reported reload #n is at least as new as reload #n
            if let Some(k) = &poll_key {
                if let Some((v1, id1)) = after.get(k) {
                    for (seen, v) in polls.lock().unwrap().drain(..) {
                        detsim::count("reach.polling_reader_saw_reload");
                        detsim::check(seen != *id1 || &v == v1, "graph/stale-read-after-watcher", || format!("round {ri}: a polling reader of {k:?} was told about reload #{seen} and then read {v:?}; that reload installed {v1:?}"));
                    }
                }
            }
            if !oracle(&mut model, &before, &after, &notified, &accepted, w.static_mode, ri, w.report_gained) {
                return;
            }
            before = after;
        }
        let after = before;
        // C06: watchers / global flag report exactly the rewrites since they were armed
        for (k, mut wch) in watchers {
            if let Some((_, id1)) = after.get(&k) {
                let id0 = start[&k].1;
                let moved = wch.reloaded();
                let again = wch.reloaded();
                let global = with_ty!(k.0, T, cache.get_cached::<T>(&k.1).map(|h| h.reloaded_global())).unwrap_or(false);
                detsim::check(moved == (*id1 > id0), "graph/watcher-wrong", || format!("round {ri}: {k:?}: reload id went {id0} -> {id1} but its ReloadWatcher says reloaded = {moved}"));
                detsim::check(!again, "graph/watcher-reports-twice", || format!("round {ri}: watcher of {k:?} reported the same reload twice"));
                detsim::check(global == (*id1 > id0), "graph/global-flag-wrong", || format!("round {ri}: {k:?}: reload id went {id0} -> {id1} but reloaded_global() = {global}"));
                if moved {
                    detsim::count("reach.watcher_saw_reload");
                }
            }
        }
    }
}
/// The fixpoint oracle (DESIGN §6.4). Returns false when the round is ambiguous and the scenario must stop.
fn oracle(model: &mut Model, before: &Snap, after: &Snap, notified: &BTreeSet<Dep>, accepted: &BTreeSet<Dep>, static_mode: bool, ri: usize, report_gained: bool) -> bool {
    if before.keys().ne(after.keys()) {
        // a reload cached an asset that was absent before the pass: the model cannot attribute its value to a pass order
        let gone: Vec<&Key> = before.keys().filter(|k| !after.contains_key(*k)).collect();
        detsim::check(gone.is_empty(), "graph/entry-vanished-during-reload", || format!("round {ri}: {gone:?} were cached before the pass and are gone after it"));
        detsim::count("reach.ambiguous_round_new_entry_cached_by_a_reload");
        return false;
    }
    let accepted = accepted.clone();
    let aff = model.affected(&accepted);
    // the model now holds the real final cache
    for (k, (v, id)) in after {
        if let Some(e) = model.cache.get_mut(k) {
            e.show = v.clone();
            e.reload = *id;
        } else {
            detsim::fail("graph/harness", format!("{k:?} is cached but unknown to the model"));
        }
    }
    let mut any_reload = false;
    // the assets the pass must visit first (they may register new nodes), the others afterwards
    let order: Vec<&Key> = after.keys().filter(|k| aff.contains(*k) && model.cache[*k].dynamic).chain(after.keys().filter(|k| !(aff.contains(*k) && model.cache[*k].dynamic))).collect();
    for k in order {
        let (v1, id1) = &after[k];
        let (v0, id0) = &before[k];
        let dynamic = model.cache[k].dynamic;
        if !aff.contains(k) || !dynamic {
            if static_mode && dynamic && (v1 != v0 || id1 != id0) {
                // 'static mode runs one pass per received notification: a notification that was not acceptable when
                // it was sent may have become acceptable through what an earlier pass of the same round registered.
                // Such assets MAY have been reloaded (it depends on the order of arrival); if so, to a fresh value.
                let late: BTreeSet<Dep> = model.accepted(notified);
                let aff_late = model.affected(&late);
                if aff_late.contains(k) {
                    let (fresh, deps, m2) = model.fresh(k.0, &k.1);
                    if let Ok(s) = fresh {
                        if crate::model::masked_eq(v1, &s) && id1 > id0 {
                            detsim::count("reach.static_mode_late_acceptance");
                            model.reg = m2.reg;
                            model.nodes = m2.nodes;
                            model.register(k, deps);
                            continue;
                        }
                    }
                }
            }
            detsim::check(v1 == v0 && id1 == id0, "graph/reloaded-without-cause", || format!("round {ri}: {k:?} went from {v0:?}/{id0} to {v1:?}/{id1} but no entry it depends on was notified (notified {notified:?}, accepted {accepted:?})"));
            continue;
        }
        let (fresh, deps, m2) = model.fresh(k.0, &k.1);
        if m2.ambiguous {
            detsim::count("reach.fresh_evaluation_loaded_uncached_assets");
        }
        match fresh {
            Ok(s) => {
                let gained = gained_dependency(model, &m2, k, &deps, &aff, &accepted);
                if gained && !report_gained && (!crate::model::masked_eq(v1, &s) || id1 == id0) {
                    detsim::count("reach.known_shape_F-C05b_round_skipped");
                    return false;
                }
                let id_ok = if static_mode { id1 > id0 } else { *id1 == id0 + 1 };
                if !id_ok {
                    if *id1 == *id0 && gained {
                        detsim::fail("graph/gained-dependency-refreshed-in-same-pass", format!("round {ri}: {k:?} not reloaded (id {id0})"));
                    }
                    detsim::fail(if *id1 == *id0 { "graph/not-reloaded" } else { "graph/reload-id" }, format!("round {ri}: {k:?} depends on a notified entry and a fresh load succeeds, but its reload id went {id0} -> {id1} (expected +1); notified {notified:?}; value {v1:?}"));
                }
                if !crate::model::masked_eq(v1, &s) {
                    let rule = if gained { "graph/gained-dependency-refreshed-in-same-pass" } else { "graph/stale" };
                    detsim::fail(rule, format!("round {ri}: after the barrier {k:?} holds {v1:?} but loading it afresh from the current source and cache gives {s:?}; notified {notified:?}"));
                }
                model.reg = m2.reg;
                model.nodes = m2.nodes;
                model.register(k, deps);
                any_reload = true;
            }
            Err(e) => {
                detsim::check(v1 == v0 && id1 == id0, "graph/failed-reload-changed-value", || format!("round {ri}: a fresh load of {k:?} fails ({}), yet it went from {v0:?}/{id0} to {v1:?}/{id1}", e.show()));
                detsim::count("reach.failed_reload_kept_old_value");
                // the asset keeps its own dependencies, but what nested load_owned / load calls registered with the
                // reloader before the failure stays registered
                model.reg = m2.reg;
                model.nodes = m2.nodes;
            }
        }
    }
    if any_reload {
        detsim::count("reach.reload_after_notified_edit");
        if aff.len() >= 2 {
            detsim::count("reach.transitive_reload");
        }
    }
    true
}

/// F-C05b's precondition: the fresh evaluation records a dependency that the registered set did not contain and that is
/// itself refreshed in this pass (an affected asset or a notified entry).
fn gained_dependency(model: &Model, m2: &Model, k: &Key, deps: &BTreeSet<Dep>, aff: &BTreeSet<Key>, accepted: &BTreeSet<Dep>) -> bool {
    let mut newreg = m2.reg.clone();
    newreg.insert(k.clone(), deps.clone());
    for (kk, dd) in &newreg {
        let old = model.reg.get(kk).cloned().unwrap_or_default();
        for d in dd.difference(&old) {
            match d {
                Dep::Asset(t, i) if aff.contains(&(*t, i.clone())) => return true,
                Dep::File(..) | Dep::Dir(..) if accepted.contains(d) => return true,
                _ => {}
            }
        }
    }
    false
}
