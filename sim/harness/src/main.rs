//! simcheck — deterministic-simulation harness for assets_manager (see /verif/DESIGN.md).
mod common;
mod graph;
mod hist;
mod model;
mod recipe;
mod ledger;
mod lin;
mod orch;
mod props;
mod world;

use common::*;

#[global_allocator]
static GLOBAL: ledger::Accounting = ledger::Accounting;

fn arg(args: &[String], name: &str) -> Option<String> {
    args.iter().position(|a| a == name).and_then(|i| args.get(i + 1).cloned())
}
fn flag(args: &[String], name: &str) -> bool {
    args.iter().any(|a| a == name)
}

fn main() {
    let args: Vec<String> = std::env::args().collect();
    detsim::install_quiet_panic_hook();
    props::c18::validate_rid();
    let cmd = args.get(1).map(|s| s.as_str()).unwrap_or("");
    let code = match cmd {
        "list" => {
            for p in props::all() {
                println!("{} runs={:?}", p.id(), p.info().runs);
            }
            0
        }
        "info" => {
            let p = props::by_id(&arg(&args, "--prop").expect("--prop")).expect("unknown property");
            let i = p.info();
            println!("{}", serde_json::json!({"id": p.id(), "level": i.level, "rule": i.rule, "real": i.real, "stub": i.stub, "assumptions": i.assumptions, "runs": [i.runs.0, i.runs.1]}));
            0
        }
        "flavour" => {
            println!("{}", flavour());
            0
        }
        "worker" => orch::worker_main(&args),
        "run" => orch::run_main(&args),
        "replay" => orch::replay_main(&args),
        "trycase" => orch::trycase_main(&args),
        "one" => {
            let p = props::by_id(&arg(&args, "--prop").expect("--prop")).expect("unknown property");
            let seed: u64 = arg(&args, "--seed").map(|s| s.parse().unwrap()).unwrap_or(DEFAULT_SEED);
            let index: u64 = arg(&args, "--index").map(|s| s.parse().unwrap()).unwrap_or(0);
            let tier = if arg(&args, "--tier").as_deref() == Some("thorough") { Tier::Thorough } else { Tier::Quick };
            let case = make_case(p, seed, index, tier);
            if flag(&args, "--show") {
                println!("{}", serde_json::to_string_pretty(&case).unwrap());
            }
            let o = p.execute(&case);
            for l in &o.trace {
                println!("{l}");
            }
            println!("fail={:?} steps={} switches={} threads={} nontrivial={} digest={:016x} counters={:?}", o.fail, o.steps, o.switches, o.threads, o.nontrivial, o.digest, o.counters);
            o.fail.is_some() as i32
        }
        _ => {
            eprintln!("usage: simcheck list|flavour|run|worker|replay|one ...");
            2
        }
    };
    std::process::exit(code);
}
