//! The simulated world shared by the cache / hot-reloading properties: an in-memory faultable `Source`,
//! harness asset types with tracked values, the per-run context (loader fault plan, load log).
use crate::ledger::Tracked;
use assets_manager::hot_reloading::EventSender;
use assets_manager::source::{DirEntry, FileContent, OwnedDirEntry, Source};
use assets_manager::{loader::Loader, Asset, BoxedError, SharedString};
use serde::{Deserialize, Serialize};
use std::borrow::Cow;
use std::collections::{BTreeMap, BTreeSet};
use std::io;
use std::sync::{Arc, Mutex};

// ------------------------------------------------------------------ io error kinds
#[derive(Clone, Copy, Debug, Serialize, Deserialize, PartialEq, Eq, PartialOrd, Ord, Hash)]
pub enum IoKind {
    NotFound,
    PermissionDenied,
    Interrupted,
    UnexpectedEof,
    InvalidData,
    TimedOut,
    Other,
}
pub const IO_KINDS: [IoKind; 7] = [IoKind::NotFound, IoKind::PermissionDenied, IoKind::Interrupted, IoKind::UnexpectedEof, IoKind::InvalidData, IoKind::TimedOut, IoKind::Other];
impl IoKind {
    pub fn to_std(self) -> io::ErrorKind {
        match self {
            IoKind::NotFound => io::ErrorKind::NotFound,
            IoKind::PermissionDenied => io::ErrorKind::PermissionDenied,
            IoKind::Interrupted => io::ErrorKind::Interrupted,
            IoKind::UnexpectedEof => io::ErrorKind::UnexpectedEof,
            IoKind::InvalidData => io::ErrorKind::InvalidData,
            IoKind::TimedOut => io::ErrorKind::TimedOut,
            IoKind::Other => io::ErrorKind::Other,
        }
    }
    pub fn from_std(k: io::ErrorKind) -> IoKind {
        match k {
            io::ErrorKind::NotFound => IoKind::NotFound,
            io::ErrorKind::PermissionDenied => IoKind::PermissionDenied,
            io::ErrorKind::Interrupted => IoKind::Interrupted,
            io::ErrorKind::UnexpectedEof => IoKind::UnexpectedEof,
            io::ErrorKind::InvalidData => IoKind::InvalidData,
            io::ErrorKind::TimedOut => IoKind::TimedOut,
            _ => IoKind::Other,
        }
    }
    pub fn err(self, what: &str) -> io::Error {
        io::Error::new(self.to_std(), format!("injected {self:?}: {what}"))
    }
}

// ------------------------------------------------------------------ per-run context
#[derive(Clone, Copy, Debug, Serialize, Deserialize, PartialEq, Eq)]
pub enum LoaderFault {
    Err,
    Panic,
}
#[derive(Clone, Debug)]
pub struct LoadEvent {
    pub seq: u64,
    pub thread: usize,
    pub what: String,
}
#[derive(Default)]
pub struct RunCtx {
    pub loader_calls: u64,
    pub loader_plan: BTreeMap<u64, LoaderFault>,
    pub loader_log: Vec<LoadEvent>,
    /// caches reachable from recipes (`Other`, `Thread` instructions): raw pointers registered by the scenario
    pub caches: Vec<usize>,
    pub faults_fired: u64,
}
static RUN: Mutex<Option<RunCtx>> = Mutex::new(None);
pub fn reset_run() {
    *RUN.lock().unwrap_or_else(|e| e.into_inner()) = Some(RunCtx::default());
    crate::ledger::reset();
}
pub fn run_ctx<R>(f: impl FnOnce(&mut RunCtx) -> R) -> R {
    let mut g = RUN.lock().unwrap_or_else(|e| e.into_inner());
    f(g.get_or_insert_with(RunCtx::default))
}

// ------------------------------------------------------------------ the source
#[derive(Clone, Debug, Serialize, Deserialize, PartialEq)]
pub enum FileSt {
    Data(Vec<u8>),
    Unreadable(IoKind),
}
#[derive(Clone, Debug, Default, Serialize, Deserialize, PartialEq)]
pub struct Tree {
    /// (id, ext) -> state
    pub files: BTreeMap<String, FileSt>,
    /// directory ids (the root "" always exists)
    pub dirs: BTreeSet<String>,
    /// directories whose listing fails
    pub bad_dirs: BTreeMap<String, IoKind>,
    /// directory listings come in an arbitrary (but fixed) order, like a real file system's: a permutation keyed by this seed
    #[serde(default)]
    pub order_seed: u64,
}
/// Large contents are stored as a compact spec "@big:<bytes>:<tag>" and expanded when read (keeps workloads and replay files small).
pub fn materialize(d: &[u8]) -> Vec<u8> {
    if let Some(rest) = d.strip_prefix(b"@big:") {
        if let Ok(s) = std::str::from_utf8(rest) {
            if let Some((n, tag)) = s.split_once(':') {
                if let (Ok(n), false) = (n.parse::<usize>(), tag.is_empty()) {
                    return tag.as_bytes().iter().copied().cycle().take(n).collect();
                }
            }
        }
    }
    d.to_vec()
}
pub fn fkey(id: &str, ext: &str) -> String {
    format!("{id}/{ext}")
}
pub fn unfkey(k: &str) -> (&str, &str) {
    // extensions never contain '/', ids may
    k.rsplit_once('/').unwrap()
}
pub fn parent_id(id: &str) -> Option<&str> {
    if id.is_empty() {
        None
    } else {
        Some(id.rfind('.').map(|n| &id[..n]).unwrap_or(""))
    }
}
impl Tree {
    pub fn put(&mut self, id: &str, ext: &str, data: &[u8]) {
        self.files.insert(fkey(id, ext), FileSt::Data(data.to_vec()));
        // parents exist
        let mut p = parent_id(id);
        while let Some(d) = p {
            if !d.is_empty() {
                self.dirs.insert(d.to_string());
            }
            p = parent_id(d);
        }
    }
    pub fn has_dir(&self, id: &str) -> bool {
        id.is_empty() || self.dirs.contains(id)
    }
    /// direct children of directory `d`: (is_dir, id, ext)
    pub fn children(&self, d: &str) -> Vec<(bool, String, String)> {
        let mut out = vec![];
        for k in self.files.keys() {
            let (id, ext) = unfkey(k);
            if parent_id(id) == Some(d) {
                out.push((false, id.to_string(), ext.to_string()));
            }
        }
        for x in &self.dirs {
            if parent_id(x) == Some(d) {
                out.push((true, x.clone(), String::new()));
            }
        }
        if self.order_seed != 0 {
            let seed = self.order_seed;
            out.sort_by_key(|(dir, id, ext)| detsim::mix(seed, crate::common::fnv(format!("{dir}{id}/{ext}").as_bytes())));
        }
        out
    }
}

#[derive(Clone, Copy, Debug, Serialize, Deserialize, PartialEq, Eq)]
pub enum HotMode {
    /// `make_source` gives a clone, `configure_hot_reloading` keeps the `EventSender` for the harness
    Custom,
    /// `make_source` returns None: no reloader is started
    NoMakeSource,
    /// `configure_hot_reloading` returns an error: no reloader is started
    ConfigureFails,
}
#[derive(Clone, Debug)]
pub struct ReadLog {
    pub seq: u64,
    pub thread: usize,
    pub op: char,
    pub id: String,
    pub ext: String,
    pub ok: bool,
}
struct Inner {
    tree: Mutex<Tree>,
    sender: Mutex<Option<EventSender>>,
    mode: HotMode,
    /// 0 Slice, 1 Buffer, 2 Owned, 3 rotate by read index
    variant: u8,
    reads: Mutex<u64>,
    plan: Mutex<BTreeMap<u64, IoKind>>,
    log: Mutex<Vec<ReadLog>>,
    arena: Mutex<Vec<Box<[u8]>>>,
    keep_log: bool,
    configure_calls: Mutex<u64>,
}
#[derive(Clone)]
pub struct SimSource(Arc<Inner>);
impl SimSource {
    pub fn new(tree: Tree, mode: HotMode, variant: u8) -> SimSource {
        SimSource(Arc::new(Inner { tree: Mutex::new(tree), sender: Mutex::new(None), mode, variant, reads: Mutex::new(0), plan: Mutex::new(BTreeMap::new()), log: Mutex::new(vec![]), arena: Mutex::new(vec![]), keep_log: true, configure_calls: Mutex::new(0) }))
    }
    pub fn tree<R>(&self, f: impl FnOnce(&mut Tree) -> R) -> R {
        f(&mut self.0.tree.lock().unwrap())
    }
    pub fn snapshot(&self) -> Tree {
        self.0.tree.lock().unwrap().clone()
    }
    pub fn sender(&self) -> Option<EventSender> {
        self.0.sender.lock().unwrap().clone()
    }
    pub fn drop_sender(&self) {
        *self.0.sender.lock().unwrap() = None;
    }
    pub fn set_plan(&self, plan: BTreeMap<u64, IoKind>) {
        *self.0.plan.lock().unwrap() = plan;
    }
    /// how many times the library asked this source to start its watcher
    pub fn configure_calls(&self) -> u64 {
        *self.0.configure_calls.lock().unwrap()
    }
    pub fn reads(&self) -> u64 {
        *self.0.reads.lock().unwrap()
    }
    pub fn log(&self) -> Vec<ReadLog> {
        self.0.log.lock().unwrap().clone()
    }
    pub fn clear_log(&self) {
        self.0.log.lock().unwrap().clear();
    }
    fn next_read(&self) -> (u64, Option<IoKind>) {
        let mut r = self.0.reads.lock().unwrap();
        let k = *r;
        *r += 1;
        let f = self.0.plan.lock().unwrap().get(&k).copied();
        (k, f)
    }
    fn note(&self, op: char, id: &str, ext: &str, ok: bool) {
        if self.0.keep_log {
            let (seq, thread) = if detsim::in_sim() { (detsim::seq(), detsim::current_thread()) } else { (0, 0) };
            self.0.log.lock().unwrap().push(ReadLog { seq, thread, op, id: id.to_string(), ext: ext.to_string(), ok });
        }
    }
    /// Send one notification through the library's `EventSender` (if hot-reloading was configured).
    pub fn notify(&self, e: OwnedDirEntry) -> bool {
        match self.sender() {
            Some(s) => s.send(e).is_ok(),
            None => false,
        }
    }
    /// Send a batch through `EventSender::send_multiple`. The batch is handed over as an iterator whose (legal)
    /// `size_hint` varies with the batch: exact, (0, Some(n)), (1, Some(n + 3)), (1, None), (0, None) -- the library
    /// may use the hint as an optimisation only, every event of the batch has to arrive (seeded change C05-i).
    pub fn notify_many(&self, es: Vec<OwnedDirEntry>) -> bool {
        let n = es.len();
        let salt = match es.first() {
            Some(OwnedDirEntry::File(id, ext)) => id.len() + ext.len(),
            Some(OwnedDirEntry::Directory(id)) => id.len() + 1,
            None => 0,
        };
        let (lo, hi) = match (n + salt) % 5 {
            0 => (n, Some(n)),
            1 => (0, Some(n)),
            2 => (n.min(1), Some(n + 3)),
            3 => (n.min(1), None),
            _ => (0, None),
        };
        if lo == 1 && n > 1 && detsim::in_sim() {
            detsim::count("reach.send_multiple_hint_lower_bound_1_of_many");
        }
        match self.sender() {
            Some(s) => s.send_multiple(Hinted { inner: es.into_iter(), lo, hi }).is_ok(),
            None => false,
        }
    }
}
/// An iterator over a batch of notifications with a chosen, legal `size_hint`.
struct Hinted {
    inner: std::vec::IntoIter<OwnedDirEntry>,
    lo: usize,
    hi: Option<usize>,
}
impl Iterator for Hinted {
    type Item = OwnedDirEntry;
    fn next(&mut self) -> Option<OwnedDirEntry> {
        let x = self.inner.next();
        if x.is_some() {
            self.lo = self.lo.saturating_sub(1);
            self.hi = self.hi.map(|h| h.saturating_sub(1));
        }
        x
    }
    fn size_hint(&self) -> (usize, Option<usize>) {
        (self.lo.min(self.inner.len()), self.hi.map(|h| h.max(self.inner.len())))
    }
}
pub fn file_entry(id: &str, ext: &str) -> OwnedDirEntry {
    OwnedDirEntry::File(id.into(), ext.into())
}
pub fn dir_entry(id: &str) -> OwnedDirEntry {
    OwnedDirEntry::Directory(id.into())
}
struct OwnedBytes(Vec<u8>);
impl AsRef<[u8]> for OwnedBytes {
    fn as_ref(&self) -> &[u8] {
        &self.0
    }
}
impl Source for SimSource {
    fn read(&self, id: &str, ext: &str) -> io::Result<FileContent<'_>> {
        detsim::yield_point("source.read");
        let (k, fault) = self.next_read();
        if let Some(kind) = fault {
            detsim::count("fault.read_error");
            run_ctx(|c| c.faults_fired += 1);
            self.note('r', id, ext, false);
            return Err(kind.err(&format!("read #{k} of {id}.{ext}")));
        }
        let st = self.0.tree.lock().unwrap().files.get(&fkey(id, ext)).cloned();
        match st {
            None => {
                self.note('r', id, ext, false);
                Err(io::Error::new(io::ErrorKind::NotFound, format!("no file {id}.{ext}")))
            }
            Some(FileSt::Unreadable(kind)) => {
                detsim::count("fault.unreadable_file");
                self.note('r', id, ext, false);
                Err(kind.err(&format!("{id}.{ext} is unreadable")))
            }
            Some(FileSt::Data(d)) => {
                let d = materialize(&d);
                self.note('r', id, ext, true);
                let v = if self.0.variant == 3 { (k % 3) as u8 } else { self.0.variant };
                Ok(match v {
                    0 => {
                        let b: Box<[u8]> = d.into_boxed_slice();
                        let p: *const [u8] = &*b;
                        self.0.arena.lock().unwrap().push(b);
                        // the arena only grows and lives as long as the source
                        FileContent::Slice(unsafe { &*p })
                    }
                    1 => FileContent::Buffer(d),
                    _ => FileContent::from_owned(OwnedBytes(d)),
                })
            }
        }
    }
    fn read_dir(&self, id: &str, f: &mut dyn FnMut(DirEntry)) -> io::Result<()> {
        detsim::yield_point("source.read_dir");
        let (k, fault) = self.next_read();
        if let Some(kind) = fault {
            detsim::count("fault.read_dir_error");
            run_ctx(|c| c.faults_fired += 1);
            self.note('d', id, "", false);
            return Err(kind.err(&format!("read_dir #{k} of {id}")));
        }
        let (exists, bad, children) = {
            let t = self.0.tree.lock().unwrap();
            (t.has_dir(id), t.bad_dirs.get(id).copied(), t.children(id))
        };
        if let Some(kind) = bad {
            detsim::count("fault.unreadable_dir");
            self.note('d', id, "", false);
            return Err(kind.err(&format!("directory {id} is unreadable")));
        }
        if !exists {
            self.note('d', id, "", false);
            return Err(io::Error::new(io::ErrorKind::NotFound, format!("no directory {id}")));
        }
        self.note('d', id, "", true);
        for (is_dir, cid, ext) in &children {
            if *is_dir {
                f(DirEntry::Directory(cid))
            } else {
                f(DirEntry::File(cid, ext))
            }
        }
        Ok(())
    }
    fn exists(&self, entry: DirEntry) -> bool {
        let t = self.0.tree.lock().unwrap();
        match entry {
            DirEntry::File(id, ext) => t.files.contains_key(&fkey(id, ext)),
            DirEntry::Directory(id) => t.has_dir(id),
        }
    }
    fn make_source(&self) -> Option<Box<dyn Source + Send>> {
        match self.0.mode {
            HotMode::NoMakeSource => None,
            _ => Some(Box::new(self.clone())),
        }
    }
    fn configure_hot_reloading(&self, events: EventSender) -> Result<(), BoxedError> {
        *self.0.configure_calls.lock().unwrap() += 1;
        // the sender is kept in every mode: a source whose set-up fails half-way may well go on sending
        *self.0.sender.lock().unwrap() = Some(events);
        match self.0.mode {
            HotMode::ConfigureFails => Err("simulated failure to start the watcher".into()),
            _ => Ok(()),
        }
    }
}

// ------------------------------------------------------------------ leaf assets
#[derive(Debug)]
pub struct DecodeError(pub String);
impl std::fmt::Display for DecodeError {
    fn fmt(&self, f: &mut std::fmt::Formatter<'_>) -> std::fmt::Result {
        write!(f, "undecodable: {}", self.0)
    }
}
impl std::error::Error for DecodeError {}

#[derive(Debug)]
pub struct LeafVal {
    pub bytes: Vec<u8>,
    pub ext: String,
    pub default: bool,
    pub t: Tracked,
}
pub fn lossy(b: &[u8]) -> String {
    if b.len() <= 24 && b.iter().all(|c| c.is_ascii_graphic() || *c == b' ') {
        String::from_utf8_lossy(b).into_owned()
    } else {
        format!("{}b#{:08x}", b.len(), crate::common::fnv(b) as u32)
    }
}
impl LeafVal {
    pub fn show(&self) -> String {
        if self.default {
            "L(default)".to_string()
        } else {
            format!("L({}|{})", self.ext, lossy(&self.bytes))
        }
    }
}
pub struct SimLoader;
fn leaf_load(ty: &'static str, content: Cow<[u8]>, ext: &str) -> Result<LeafVal, BoxedError> {
    let (k, fault) = run_ctx(|c| {
        let k = c.loader_calls;
        c.loader_calls += 1;
        (k, c.loader_plan.get(&k).copied())
    });
    let (seq, thread) = (detsim::seq(), detsim::current_thread());
    run_ctx(|c| c.loader_log.push(LoadEvent { seq, thread, what: format!("{ty}.{ext}") }));
    match fault {
        Some(LoaderFault::Err) => {
            detsim::count("fault.loader_err");
            run_ctx(|c| c.faults_fired += 1);
            return Err(Box::new(DecodeError(format!("injected at loader call #{k}"))));
        }
        Some(LoaderFault::Panic) => {
            detsim::count("fault.loader_panic");
            run_ctx(|c| c.faults_fired += 1);
            std::panic::panic_any(detsim::InjectedPanic(format!("loader call #{k}")));
        }
        None => {}
    }
    // a decoding error whose *type* is io::Error (a loader that parses through io::Read): still a decoding error
    if content.starts_with(b"!bad-io") || content.starts_with(b"!bad-nf") {
        detsim::count("fault.undecodable_content_io_typed_error");
        let kind = if content.starts_with(b"!bad-nf") { io::ErrorKind::NotFound } else { io::ErrorKind::InvalidData };
        return Err(Box::new(io::Error::new(kind, format!("cannot decode {}", lossy(&content)))));
    }
    if content.starts_with(b"!bad") {
        detsim::count("fault.undecodable_content");
        return Err(Box::new(DecodeError(lossy(&content))));
    }
    Ok(LeafVal { bytes: content.to_vec(), ext: ext.to_string(), default: false, t: Tracked::new(format!("{ty}:{ext}:{}", lossy(&content))) })
}
fn default_leaf(ty: &'static str) -> LeafVal {
    LeafVal { bytes: vec![], ext: String::new(), default: true, t: Tracked::new(format!("{ty}:default")) }
}

macro_rules! leaf {
    ($name:ident, [$($ext:literal),*], $hot:expr, $def:expr) => {
        #[derive(Debug)]
        pub struct $name(pub LeafVal);
        impl Loader<$name> for SimLoader {
            fn load(content: Cow<[u8]>, ext: &str) -> Result<$name, BoxedError> {
                leaf_load(stringify!($name), content, ext).map($name)
            }
        }
        impl Asset for $name {
            const EXTENSIONS: &'static [&'static str] = &[$($ext),*];
            type Loader = SimLoader;
            const HOT_RELOADED: bool = $hot;
            fn default_value(_id: &SharedString, error: BoxedError) -> Result<Self, BoxedError> {
                if $def { Ok($name(default_leaf(stringify!($name)))) } else { Err(error) }
            }
        }
    };
}
leaf!(LA, ["a"], true, false);
leaf!(LAB, ["a", "b"], true, false);
leaf!(LBC, ["b", "c"], true, false);
leaf!(LABC, ["a", "b", "c"], true, false);
leaf!(LNone, [], true, true);
leaf!(LNoneNoDef, [], true, false);
leaf!(LDef, ["a", "b"], true, true);
leaf!(LE, [""], true, false);
leaf!(LS, ["a"], false, false);
impl assets_manager::asset::NotHotReloaded for LS {}

// ------------------------------------------------------------------ storable (non-asset) tracked values of several layouts
#[derive(Debug)]
pub struct TV {
    pub n: u64,
    pub t: Tracked,
}
impl assets_manager::Storable for TV {}
impl assets_manager::asset::NotHotReloaded for TV {}
#[derive(Debug)]
#[repr(align(64))]
pub struct TV64 {
    pub n: u64,
    pub t: Tracked,
    pub pad: [u64; 5],
}
impl assets_manager::Storable for TV64 {}
#[derive(Debug)]
pub struct TVHeap {
    pub words: Vec<u64>,
    pub t: Tracked,
}
impl assets_manager::Storable for TVHeap {}
#[derive(Debug)]
pub struct TVByte(pub u8);
impl assets_manager::Storable for TVByte {}
#[derive(Debug)]
pub struct TVZst;
impl assets_manager::Storable for TVZst {}
#[derive(Debug)]
pub struct TVBig {
    pub words: [u64; 512],
    pub t: Tracked,
}
impl assets_manager::Storable for TVBig {}
