//! Drop ledger for tracked values and an accounting global allocator (DESIGN §6.3).
use std::alloc::{GlobalAlloc, Layout, System};
use std::collections::BTreeMap;
use std::sync::atomic::{AtomicBool, AtomicU64, AtomicUsize, Ordering};
use std::sync::Mutex;

// ------------------------------------------------------------------ drop ledger
#[derive(Clone, Debug, PartialEq, Eq)]
pub enum LState {
    Live,
    Dropped,
}
#[derive(Clone, Debug)]
pub struct Item {
    pub label: String,
    pub state: LState,
    pub pinned: u32,
    pub created_seq: u64,
    pub created_thread: usize,
    pub dropped_seq: u64,
    pub dropped_thread: usize,
}
#[derive(Default)]
pub struct Ledger {
    pub items: BTreeMap<u64, Item>,
    next: u64,
}
static LEDGER: Mutex<Option<Ledger>> = Mutex::new(None);
thread_local! { static CREATED: std::cell::RefCell<Vec<u64>> = const { std::cell::RefCell::new(Vec::new()) }; }
/// Ids of the tracked values created by the calling thread since the last call.
pub fn take_created() -> Vec<u64> {
    CREATED.with(|c| std::mem::take(&mut *c.borrow_mut()))
}

pub fn reset() {
    *LEDGER.lock().unwrap_or_else(|e| e.into_inner()) = Some(Ledger::default());
}
fn with<R>(f: impl FnOnce(&mut Ledger) -> R) -> R {
    let mut g = LEDGER.lock().unwrap_or_else(|e| e.into_inner());
    f(g.get_or_insert_with(Ledger::default))
}

/// A value whose creation and destruction are recorded. Plain data: a double drop is detected, not UB.
#[derive(Debug)]
pub struct Tracked {
    pub id: u64,
}
impl Tracked {
    pub fn new(label: impl Into<String>) -> Tracked {
        let seq = if detsim::in_sim() { detsim::seq() } else { 0 };
        let th = if detsim::in_sim() { detsim::current_thread() } else { 0 };
        let label = label.into();
        let id = with(|l| {
            l.next += 1;
            let id = l.next;
            l.items.insert(id, Item { label, state: LState::Live, pinned: 0, created_seq: seq, created_thread: th, dropped_seq: 0, dropped_thread: 0 });
            id
        });
        CREATED.with(|c| c.borrow_mut().push(id));
        Tracked { id }
    }
}
impl Drop for Tracked {
    fn drop(&mut self) {
        let in_sim = detsim::in_sim();
        let seq = if in_sim && !std::thread::panicking() { detsim::seq() } else { 0 };
        let th = if in_sim { detsim::current_thread() } else { 0 };
        let problem = with(|l| match l.items.get_mut(&self.id) {
            None => Some(("ledger/unknown-value-dropped", format!("value #{} dropped but never created in this run", self.id))),
            Some(it) => {
                if it.state == LState::Dropped {
                    Some(("ledger/double-drop", format!("value #{} ({}) dropped twice (first at seq {} on t{})", self.id, it.label, it.dropped_seq, it.dropped_thread)))
                } else {
                    it.state = LState::Dropped;
                    it.dropped_seq = seq;
                    it.dropped_thread = th;
                    if it.pinned > 0 {
                        Some(("ledger/drop-while-pinned", format!("value #{} ({}) dropped on t{th} while it must still be reachable (pins: {})", self.id, it.label, it.pinned)))
                    } else {
                        None
                    }
                }
            }
        });
        if let Some((rule, msg)) = problem {
            if in_sim {
                detsim::report(rule, msg);
            }
        }
    }
}
pub fn pin(id: u64) {
    with(|l| {
        if let Some(it) = l.items.get_mut(&id) {
            it.pinned += 1;
        }
    })
}
pub fn unpin(id: u64) {
    with(|l| {
        if let Some(it) = l.items.get_mut(&id) {
            it.pinned = it.pinned.saturating_sub(1);
        }
    })
}
pub fn is_live(id: u64) -> bool {
    with(|l| l.items.get(&id).map(|i| i.state == LState::Live).unwrap_or(false))
}
pub fn item(id: u64) -> Option<Item> {
    with(|l| l.items.get(&id).cloned())
}
pub fn live() -> Vec<(u64, String)> {
    with(|l| l.items.iter().filter(|(_, i)| i.state == LState::Live).map(|(k, i)| (*k, i.label.clone())).collect())
}
pub fn created() -> u64 {
    with(|l| l.items.len() as u64)
}
pub fn snapshot() -> BTreeMap<u64, Item> {
    with(|l| l.items.clone())
}

// ------------------------------------------------------------------ accounting allocator
const SLOTS: usize = 1 << 16;
struct Slot {
    ptr: AtomicUsize,
    size: AtomicUsize,
    align: AtomicUsize,
}
#[allow(clippy::declare_interior_mutable_const)]
const EMPTY: Slot = Slot { ptr: AtomicUsize::new(0), size: AtomicUsize::new(0), align: AtomicUsize::new(0) };
static TABLE: [Slot; SLOTS] = [EMPTY; SLOTS];
static TRACKING: AtomicBool = AtomicBool::new(false);
static SPIN: AtomicBool = AtomicBool::new(false);
static MISMATCH: AtomicU64 = AtomicU64::new(0);
static MISMATCH_INFO: [AtomicUsize; 4] = [AtomicUsize::new(0), AtomicUsize::new(0), AtomicUsize::new(0), AtomicUsize::new(0)];
static LIVE: AtomicUsize = AtomicUsize::new(0);
static TRACKED_ALLOCS: AtomicU64 = AtomicU64::new(0);
const TOMB: usize = 1;

thread_local! { static TRACK_HERE: std::cell::Cell<u32> = const { std::cell::Cell::new(0) }; }
fn here() -> bool {
    TRACK_HERE.try_with(|c| c.get() > 0).unwrap_or(false) && !detsim::in_runtime()
}
/// Account for the allocations made by `f` on this thread (library calls made on behalf of the property).
pub fn tracked<R>(f: impl FnOnce() -> R) -> R {
    struct G;
    impl Drop for G {
        fn drop(&mut self) {
            TRACK_HERE.with(|c| c.set(c.get() - 1));
        }
    }
    TRACK_HERE.with(|c| c.set(c.get() + 1));
    let _g = G;
    f()
}
pub struct Accounting;
fn lock_table() {
    while SPIN.compare_exchange_weak(false, true, Ordering::Acquire, Ordering::Relaxed).is_err() {
        std::hint::spin_loop();
    }
}
fn unlock_table() {
    SPIN.store(false, Ordering::Release);
}
fn h(p: usize) -> usize {
    ((p >> 4).wrapping_mul(0x9E3779B97F4A7C15)) >> (64 - 16)
}
pub static MOVED_REALLOCS: std::sync::atomic::AtomicU64 = std::sync::atomic::AtomicU64::new(0);
unsafe impl GlobalAlloc for Accounting {
    unsafe fn alloc(&self, layout: Layout) -> *mut u8 {
        let p = System.alloc(layout);
        if !p.is_null() && TRACKING.load(Ordering::Relaxed) && here() {
            record(p as usize, layout);
        }
        p
    }
    unsafe fn dealloc(&self, p: *mut u8, layout: Layout) {
        if TRACKING.load(Ordering::Relaxed) {
            forget(p as usize, layout);
        }
        System.dealloc(p, layout)
    }
    unsafe fn realloc(&self, p: *mut u8, layout: Layout, new_size: usize) -> *mut u8 {
        let tracking = TRACKING.load(Ordering::Relaxed);
        let was = if tracking { forget(p as usize, layout) } else { false };
        if was {
            // A tracked block always *moves* when it is resized (an allocator may do that, glibc rarely does when
            // shrinking) and the old block is filled with 0xDD before it is released: a pointer taken before the
            // resize reads garbage, and releasing it later is a release of an unknown block.
            let new_layout = Layout::from_size_align_unchecked(new_size, layout.align());
            let q = System.alloc(new_layout);
            if q.is_null() {
                record(p as usize, layout);
                return q;
            }
            std::ptr::copy_nonoverlapping(p, q, layout.size().min(new_size));
            std::ptr::write_bytes(p, 0xDD, layout.size());
            System.dealloc(p, layout);
            MOVED_REALLOCS.fetch_add(1, Ordering::Relaxed);
            record(q as usize, new_layout);
            return q;
        }
        let q = System.realloc(p, layout, new_size);
        if tracking && !q.is_null() && here() {
            record(q as usize, Layout::from_size_align_unchecked(new_size, layout.align()));
        }
        q
    }
}
fn record(p: usize, layout: Layout) {
    lock_table();
    let mut i = h(p);
    for _ in 0..SLOTS {
        let cur = TABLE[i].ptr.load(Ordering::Relaxed);
        if cur == 0 || cur == TOMB {
            TABLE[i].ptr.store(p, Ordering::Relaxed);
            TABLE[i].size.store(layout.size(), Ordering::Relaxed);
            TABLE[i].align.store(layout.align(), Ordering::Relaxed);
            LIVE.fetch_add(1, Ordering::Relaxed);
            TRACKED_ALLOCS.fetch_add(1, Ordering::Relaxed);
            break;
        }
        i = (i + 1) & (SLOTS - 1);
    }
    unlock_table();
}
/// Returns true if the block was a tracked one.
fn forget(p: usize, layout: Layout) -> bool {
    lock_table();
    let mut i = h(p);
    let mut found = false;
    for _ in 0..SLOTS {
        let cur = TABLE[i].ptr.load(Ordering::Relaxed);
        if cur == 0 {
            break;
        }
        if cur == p {
            let (s, a) = (TABLE[i].size.load(Ordering::Relaxed), TABLE[i].align.load(Ordering::Relaxed));
            if s != layout.size() || a != layout.align() {
                if MISMATCH.fetch_add(1, Ordering::Relaxed) == 0 {
                    MISMATCH_INFO[0].store(s, Ordering::Relaxed);
                    MISMATCH_INFO[1].store(a, Ordering::Relaxed);
                    MISMATCH_INFO[2].store(layout.size(), Ordering::Relaxed);
                    MISMATCH_INFO[3].store(layout.align(), Ordering::Relaxed);
                }
            }
            TABLE[i].ptr.store(TOMB, Ordering::Relaxed);
            LIVE.fetch_sub(1, Ordering::Relaxed);
            found = true;
            break;
        }
        i = (i + 1) & (SLOTS - 1);
    }
    unlock_table();
    found
}
/// Start accounting: from now on blocks allocated by simulated threads outside the simulator runtime are recorded.
pub fn alloc_begin() {
    lock_table();
    for s in TABLE.iter() {
        s.ptr.store(0, Ordering::Relaxed);
    }
    LIVE.store(0, Ordering::Relaxed);
    MISMATCH.store(0, Ordering::Relaxed);
    TRACKED_ALLOCS.store(0, Ordering::Relaxed);
    unlock_table();
    TRACKING.store(true, Ordering::SeqCst);
}
pub struct AllocReport {
    pub live_blocks: usize,
    pub live_sample: Vec<(usize, usize)>,
    pub layout_mismatches: u64,
    pub first_mismatch: (usize, usize, usize, usize),
    pub tracked: u64,
}
pub fn alloc_report() -> AllocReport {
    let _rt = detsim::RtGuard::new();
    let mut buf = [(0usize, 0usize); 6];
    let mut n = 0;
    lock_table();
    let live = LIVE.load(Ordering::Relaxed);
    if live > 0 {
        for s in TABLE.iter() {
            let p = s.ptr.load(Ordering::Relaxed);
            if p != 0 && p != TOMB && n < buf.len() {
                buf[n] = (s.size.load(Ordering::Relaxed), s.align.load(Ordering::Relaxed));
                n += 1;
            }
        }
    }
    unlock_table();
    AllocReport {
        live_blocks: live,
        live_sample: buf[..n].to_vec(),
        layout_mismatches: MISMATCH.load(Ordering::Relaxed),
        first_mismatch: (MISMATCH_INFO[0].load(Ordering::Relaxed), MISMATCH_INFO[1].load(Ordering::Relaxed), MISMATCH_INFO[2].load(Ordering::Relaxed), MISMATCH_INFO[3].load(Ordering::Relaxed)),
        tracked: TRACKED_ALLOCS.load(Ordering::Relaxed),
    }
}
pub fn alloc_end() {
    TRACKING.store(false, Ordering::SeqCst);
}
/// Exempt a scope of harness code from accounting (e.g. pushing to a history vector).
pub fn untracked<R>(f: impl FnOnce() -> R) -> R {
    let _g = detsim::RtGuard::new();
    f()
}
