//! Operation histories over the three cache front-ends, executed in lock-step with the map model
//! (shared by C02, C10, C13).
use crate::ledger::{self, Tracked};
use crate::model::{LoadErr, Model};
use crate::recipe::*;
use crate::with_ty;
use crate::world::*;
use assets_manager::{AnyCache, AssetCache, LocalAssetCache, Storable};
use detsim::SplitMix;
use serde::{Deserialize, Serialize};
use std::collections::BTreeMap;
use std::sync::Arc;

#[derive(Clone, Copy, Debug, Serialize, Deserialize, PartialEq, Eq, PartialOrd, Ord, Hash)]
pub enum SK {
    TV,
    TV64,
    TVHeap,
    TVByte,
    TVZst,
    TVBig,
}
pub const SKS: [SK; 6] = [SK::TV, SK::TV64, SK::TVHeap, SK::TVByte, SK::TVZst, SK::TVBig];

#[derive(Clone, Debug, Serialize, Deserialize, PartialEq)]
pub enum HOp {
    Load(Ty, String, bool),
    Owned(Ty, String, bool),
    Cached(Ty, String, bool),
    Insert(Ty, String, u64, bool),
    Contains(Ty, String, bool),
    Remove(Ty, String),
    Take(Ty, String),
    Clear,
    InsS(SK, String, u64, bool),
    GetS(SK, String, bool),
    HasS(SK, String, bool),
    RemS(SK, String),
    TakeS(SK, String),
    Put(String, String, String),
    Del(String, String),
    PutRc(String, Vec<Ins>),
    Unreadable(String, String, IoKind),
    BadDir(String, Option<IoKind>),
    /// notifications: (id, ext); ext "/" names a directory
    Notify(Vec<(String, String)>),
    HotReload,
    /// type-erasure checks on whatever is stored under (ty, id)
    Downcast(Ty, String),
}

#[derive(Clone, Copy, Debug, Serialize, Deserialize, PartialEq, Eq)]
pub enum FrontKind {
    Hot,
    Cold,
    Local,
    /// hot-reloading requested but the source does not support it (make_source == None)
    Unsupported,
    /// hot-reloading requested but configuring it fails
    ConfigFails,
}
pub enum Front {
    Shared(AssetCache<SimSource>),
    Local(LocalAssetCache<SimSource>),
}
impl Front {
    pub fn new(kind: FrontKind, tree: Tree, variant: u8) -> (Front, SimSource) {
        let mode = match kind {
            FrontKind::Unsupported => HotMode::NoMakeSource,
            FrontKind::ConfigFails => HotMode::ConfigureFails,
            _ => HotMode::Custom,
        };
        let src = SimSource::new(tree, mode, variant);
        let f = match kind {
            FrontKind::Hot | FrontKind::Unsupported | FrontKind::ConfigFails => Front::Shared(AssetCache::with_source(src.clone())),
            FrontKind::Cold => Front::Shared(AssetCache::without_hot_reloading(src.clone())),
            FrontKind::Local => Front::Local(LocalAssetCache::with_source(src.clone())),
        };
        (f, src)
    }
    pub fn any(&self) -> AnyCache<'_> {
        match self {
            Front::Shared(c) => c.as_any_cache(),
            Front::Local(c) => c.as_any_cache(),
        }
    }
    pub fn hot_reload(&self) {
        if let Front::Shared(c) = self {
            c.hot_reload()
        }
    }
}

pub trait Make: Shown {
    fn make(n: u64) -> Self;
    fn make_show(n: u64) -> String;
}
macro_rules! leaf_make { ($($t:ident),*) => { $( impl Make for $t {
    fn make(n: u64) -> Self { $t(LeafVal { bytes: format!("ins{n}").into_bytes(), ext: "ins".into(), default: false, t: Tracked::new(format!("{} inserted {n}", stringify!($t))) }) }
    fn make_show(n: u64) -> String { format!("L(ins|ins{n})") }
} )* } }
leaf_make!(LA, LAB, LBC, LABC, LNone, LNoneNoDef, LDef, LE, LS);
macro_rules! rec_make { ($($t:ident),*) => { $( impl Make for $t {
    fn make(n: u64) -> Self { $t(RecVal { obs: vec![format!("ins{n}")], t: Tracked::new(format!("{} inserted {n}", stringify!($t))) }) }
    fn make_show(n: u64) -> String { format!("R[ins{n}]") }
} )* } }
rec_make!(RA, RB, RS);
impl<T: Make> Make for Arc<T> {
    fn make(n: u64) -> Self {
        Arc::new(T::make(n))
    }
    fn make_show(n: u64) -> String {
        T::make_show(n)
    }
}
pub fn insertable(ty: Ty) -> bool {
    !matches!(ty.kind(), Kind::Dir | Kind::RDir)
}
macro_rules! with_make {
    ($ty:expr, $T:ident, $body:expr) => {
        match $ty {
            Ty::LA => { type $T = LA; $body }
            Ty::LAB => { type $T = LAB; $body }
            Ty::LBC => { type $T = LBC; $body }
            Ty::LABC => { type $T = LABC; $body }
            Ty::LNone => { type $T = LNone; $body }
            Ty::LNoneNoDef => { type $T = LNoneNoDef; $body }
            Ty::LDef => { type $T = LDef; $body }
            Ty::LE => { type $T = LE; $body }
            Ty::LS => { type $T = LS; $body }
            Ty::RA => { type $T = RA; $body }
            Ty::RB => { type $T = RB; $body }
            Ty::RS => { type $T = RS; $body }
            Ty::ArcLA => { type $T = Arc<LA>; $body }
            Ty::ArcRA => { type $T = Arc<RA>; $body }
            Ty::ArcLS => { type $T = Arc<LS>; $body }
            _ => unreachable!("type is not insertable"),
        }
    };
}
pub fn any_insert(cache: AnyCache, ty: Ty, id: &str, n: u64) -> String {
    with_make!(ty, T, cache.get_or_insert::<T>(id, T::make(n)).read().show())
}
macro_rules! direct {
    ($front:expr, $c:ident, $body:expr) => {
        match $front {
            Front::Shared($c) => $body,
            Front::Local($c) => $body,
        }
    };
}

pub trait SVal: Storable {
    fn mk(n: u64) -> Self;
    fn n(&self) -> u64;
    fn tid(&self) -> Option<u64> {
        None
    }
}
impl SVal for TV {
    fn tid(&self) -> Option<u64> {
        Some(self.t.id)
    }
    fn mk(n: u64) -> Self {
        TV { n, t: Tracked::new(format!("TV {n}")) }
    }
    fn n(&self) -> u64 {
        self.n
    }
}
impl SVal for TV64 {
    fn tid(&self) -> Option<u64> {
        Some(self.t.id)
    }
    fn mk(n: u64) -> Self {
        TV64 { n, t: Tracked::new(format!("TV64 {n}")), pad: [n; 5] }
    }
    fn n(&self) -> u64 {
        assert!(self as *const _ as usize % 64 == 0, "over-aligned value stored at a misaligned address");
        if self.pad.iter().all(|p| *p == self.n) {
            self.n
        } else {
            u64::MAX
        }
    }
}
impl SVal for TVHeap {
    fn tid(&self) -> Option<u64> {
        Some(self.t.id)
    }
    fn mk(n: u64) -> Self {
        TVHeap { words: vec![n; 3 + (n % 5) as usize], t: Tracked::new(format!("TVHeap {n}")) }
    }
    fn n(&self) -> u64 {
        if self.words.iter().all(|w| *w == self.words[0]) {
            self.words[0]
        } else {
            u64::MAX
        }
    }
}
impl SVal for TVByte {
    fn mk(n: u64) -> Self {
        TVByte(n as u8)
    }
    fn n(&self) -> u64 {
        self.0 as u64
    }
}
impl SVal for TVZst {
    fn mk(_n: u64) -> Self {
        TVZst
    }
    fn n(&self) -> u64 {
        0
    }
}
impl SVal for TVBig {
    fn tid(&self) -> Option<u64> {
        Some(self.t.id)
    }
    fn mk(n: u64) -> Self {
        TVBig { words: [n; 512], t: Tracked::new(format!("TVBig {n}")) }
    }
    fn n(&self) -> u64 {
        if self.words.iter().all(|w| *w == self.words[0]) {
            self.words[0]
        } else {
            u64::MAX
        }
    }
}
macro_rules! with_sk {
    ($sk:expr, $T:ident, $body:expr) => {
        match $sk {
            SK::TV => { type $T = TV; $body }
            SK::TV64 => { type $T = TV64; $body }
            SK::TVHeap => { type $T = TVHeap; $body }
            SK::TVByte => { type $T = TVByte; $body }
            SK::TVZst => { type $T = TVZst; $body }
            SK::TVBig => { type $T = TVBig; $body }
        }
    };
}
fn sk_norm(sk: SK, n: u64) -> u64 {
    match sk {
        SK::TVByte => n & 0xff,
        SK::TVZst => 0,
        _ => n,
    }
}

/// Result of one operation, in a form comparable with the model.
#[derive(Clone, Debug, PartialEq)]
pub enum R {
    Val(String),
    Err(String),
    Panic,
    None,
    Bool(bool),
    Unit,
}
fn from_load(r: Result<String, assets_manager::Error>) -> R {
    match r {
        Ok(s) => R::Val(s),
        Err(e) => R::Err(err_show(&e)),
    }
}
fn from_model(r: Result<String, LoadErr>) -> R {
    match r {
        Ok(s) => R::Val(s),
        Err(LoadErr::Err(e)) => R::Err(e),
        Err(LoadErr::Panic) => R::Panic,
    }
}

pub struct World {
    pub kind: FrontKind,
    pub front: Front,
    pub src: SimSource,
    pub model: Model,
    /// storable (non-asset) entries: (kind, id) -> n
    pub smodel: BTreeMap<(SK, String), u64>,
}
impl World {
    pub fn new(kind: FrontKind, tree: Tree, variant: u8) -> World {
        let (front, src) = Front::new(kind, tree.clone(), variant);
        World { kind, front, src, model: Model::new(tree, kind == FrontKind::Hot), smodel: BTreeMap::new() }
    }
    /// Execute `op` on the real front-end; returns its result.
    pub fn real(&mut self, op: &HOp) -> R {
        let f = &self.front;
        let caught = detsim::reraise_abort(std::panic::catch_unwind(std::panic::AssertUnwindSafe(|| match op {
            HOp::Load(ty, id, any) => from_load(if *any { any_load(f.any(), *ty, id) } else { with_ty!(*ty, T, direct!(f, c, c.load::<T>(id)).map(|h| h.read().show())) }),
            HOp::Owned(ty, id, any) => from_load(if *any { any_owned(f.any(), *ty, id) } else { with_ty!(*ty, T, direct!(f, c, c.load_owned::<T>(id)).map(|v| v.show())) }),
            HOp::Cached(ty, id, any) => match if *any { any_cached(f.any(), *ty, id) } else { with_ty!(*ty, T, direct!(f, c, c.get_cached::<T>(id)).map(|h| h.read().show())) } {
                Some(s) => R::Val(s),
                None => R::None,
            },
            HOp::Insert(ty, id, n, any) => R::Val(with_make!(*ty, T, if *any { f.any().get_or_insert::<T>(id, T::make(*n)) } else { direct!(f, c, c.get_or_insert::<T>(id, T::make(*n))) }.read().show())),
            HOp::Contains(ty, id, any) => R::Bool(if *any { any_contains(f.any(), *ty, id) } else { with_ty!(*ty, T, direct!(f, c, c.contains::<T>(id))) }),
            HOp::InsS(sk, id, n, any) => R::Val(with_sk!(*sk, T, if *any { f.any().get_or_insert::<T>(id, T::mk(*n)) } else { direct!(f, c, c.get_or_insert::<T>(id, T::mk(*n))) }.read().n().to_string())),
            HOp::GetS(sk, id, any) => match with_sk!(*sk, T, if *any { f.any().get_cached::<T>(id) } else { direct!(f, c, c.get_cached::<T>(id)) }.map(|h| h.read().n().to_string())) {
                Some(s) => R::Val(s),
                None => R::None,
            },
            HOp::HasS(sk, id, any) => R::Bool(with_sk!(*sk, T, if *any { f.any().contains::<T>(id) } else { direct!(f, c, c.contains::<T>(id)) })),
            HOp::HotReload => {
                f.hot_reload();
                R::Unit
            }
            _ => unreachable!(),
        })));
        match caught {
            Ok(r) => r,
            Err(_) => R::Panic,
        }
    }
    pub fn real_mut(&mut self, op: &HOp) -> R {
        match op {
            HOp::Remove(ty, id) => R::Bool(with_ty!(*ty, T, match &mut self.front {
                Front::Shared(c) => c.remove::<T>(id),
                Front::Local(c) => c.remove::<T>(id),
            })),
            HOp::Take(ty, id) => match with_ty!(*ty, T, match &mut self.front {
                Front::Shared(c) => c.take::<T>(id).map(|v| v.show()),
                Front::Local(c) => c.take::<T>(id).map(|v| v.show()),
            }) {
                Some(s) => R::Val(s),
                None => R::None,
            },
            HOp::Clear => {
                match &mut self.front {
                    Front::Shared(c) => c.clear(),
                    Front::Local(c) => c.clear(),
                }
                R::Unit
            }
            HOp::RemS(sk, id) => R::Bool(with_sk!(*sk, T, match &mut self.front {
                Front::Shared(c) => c.remove::<T>(id),
                Front::Local(c) => c.remove::<T>(id),
            })),
            HOp::TakeS(sk, id) => match with_sk!(*sk, T, match &mut self.front {
                Front::Shared(c) => c.take::<T>(id).map(|v| v.n().to_string()),
                Front::Local(c) => c.take::<T>(id).map(|v| v.n().to_string()),
            }) {
                Some(s) => R::Val(s),
                None => R::None,
            },
            _ => unreachable!(),
        }
    }
    /// Apply a source edit to the real source and the model.
    pub fn edit(&mut self, op: &HOp) {
        let apply = |t: &mut Tree| match op {
            HOp::Put(id, ext, data) => t.put(id, ext, data.as_bytes()),
            HOp::Del(id, ext) => {
                t.files.remove(&fkey(id, ext));
            }
            HOp::PutRc(id, recipe) => t.put(id, "rc", serde_json::to_string(recipe).unwrap().as_bytes()),
            HOp::Unreadable(id, ext, k) => {
                t.files.insert(fkey(id, ext), FileSt::Unreadable(*k));
            }
            HOp::BadDir(id, k) => match k {
                Some(k) => {
                    t.bad_dirs.insert(id.clone(), *k);
                }
                None => {
                    t.bad_dirs.remove(id);
                }
            },
            _ => unreachable!(),
        };
        self.src.tree(apply);
        apply(&mut self.model.tree);
    }
    /// The model's answer for a non-mutating / mutating cache operation.
    pub fn expected(&mut self, op: &HOp) -> R {
        match op {
            HOp::Load(ty, id, _) => from_model(self.model.load(*ty, id)),
            HOp::Owned(ty, id, _) => from_model(self.model.load_owned(*ty, id)),
            HOp::Cached(ty, id, _) => self.model.get_cached(*ty, id).map(|e| R::Val(e.show)).unwrap_or(R::None),
            HOp::Insert(ty, id, n, _) => {
                let show = with_make!(*ty, T, T::make_show(*n));
                R::Val(self.model.get_or_insert(*ty, id, &show))
            }
            HOp::Contains(ty, id, _) => R::Bool(self.model.contains(*ty, id)),
            HOp::Remove(ty, id) => R::Bool(self.model.remove(*ty, id).is_some()),
            HOp::Take(ty, id) => self.model.remove(*ty, id).map(|e| R::Val(e.show)).unwrap_or(R::None),
            HOp::Clear => {
                self.model.cache.clear();
                self.smodel.clear();
                R::Unit
            }
            HOp::InsS(sk, id, n, _) => R::Val(self.smodel.entry((*sk, id.clone())).or_insert(sk_norm(*sk, *n)).to_string()),
            HOp::GetS(sk, id, _) => self.smodel.get(&(*sk, id.clone())).map(|n| R::Val(n.to_string())).unwrap_or(R::None),
            HOp::HasS(sk, id, _) => R::Bool(self.smodel.contains_key(&(*sk, id.clone()))),
            HOp::RemS(sk, id) => R::Bool(self.smodel.remove(&(*sk, id.clone())).is_some()),
            HOp::TakeS(sk, id) => self.smodel.remove(&(*sk, id.clone())).map(|n| R::Val(n.to_string())).unwrap_or(R::None),
            _ => R::Unit,
        }
    }
    /// Everything cached, as (type/kind + id) -> (value, reload id): for cross checks between model and front-end.
    pub fn real_contents(&self, ids: &[String]) -> BTreeMap<String, (String, usize)> {
        let mut m = BTreeMap::new();
        for id in ids {
            for ty in ALL_TYS {
                if any_contains(self.front.any(), ty, id) {
                    if let Some((s, rid, _)) = any_peek(self.front.any(), ty, id) {
                        m.insert(format!("{ty:?} {id}"), (s, rid));
                    }
                }
            }
            for sk in SKS {
                let v = with_sk!(sk, T, if self.front.any().contains::<T>(id) { self.front.any().get_cached::<T>(id).map(|h| h.read().n()) } else { None });
                if let Some(n) = v {
                    m.insert(format!("{sk:?} {id}"), (n.to_string(), 0));
                }
            }
        }
        m
    }
    /// After a hot_reload the model follows the real cache for reloadable entries: values rewritten by the pass and
    /// entries that nested loads of a reload cached (what they converge to is C05's subject, not the map model's).
    pub fn follow_reloads(&mut self, ids: &[String]) {
        let hot = self.model.hot;
        for id in ids {
            for ty in ALL_TYS {
                if any_contains(self.front.any(), ty, id) {
                    if let Some((s, rid, _)) = any_peek(self.front.any(), ty, id) {
                        let e = self.model.cache.entry((ty, id.clone())).or_insert(crate::model::MEntry { show: s.clone(), reload: rid, dynamic: hot && ty.hot() });
                        if e.dynamic {
                            e.show = s;
                            e.reload = rid;
                        }
                    }
                }
            }
        }
    }
    /// ids of every tracked value reachable from the cache
    pub fn reachable(&self, ids: &[String]) -> std::collections::BTreeSet<u64> {
        let mut out = std::collections::BTreeSet::new();
        for id in ids {
            for ty in ALL_TYS {
                if any_contains(self.front.any(), ty, id) {
                    if let Some(v) = any_tids(self.front.any(), ty, id) {
                        out.extend(v);
                    }
                }
            }
            for sk in SKS {
                let t = with_sk!(sk, T, if self.front.any().contains::<T>(id) { self.front.any().get_cached::<T>(id).and_then(|h| h.read().tid()) } else { None });
                out.extend(t);
            }
        }
        out
    }
    pub fn model_contents(&self) -> BTreeMap<String, String> {
        let mut m: BTreeMap<String, String> = self.model.cache.iter().map(|((ty, id), e)| (format!("{ty:?} {id}"), e.show.clone())).collect();
        for ((sk, id), n) in &self.smodel {
            m.insert(format!("{sk:?} {id}"), n.to_string());
        }
        m
    }
}

// ------------------------------------------------------------------ generation helpers
pub struct Universe {
    pub ids: Vec<String>,
    pub dirs: Vec<String>,
}
pub fn universe() -> Universe {
    universe_styled(0)
}
/// Spelling knob for ids: the cache is a map over *any* id string, so the same workloads also run with ids that are
/// long (past any inline / prefix optimisation), contain a path separator, or non-ASCII characters and spaces.
pub fn id_suffix(style: u8) -> String {
    match style {
        1 => "_".to_string() + &"q".repeat(70),
        2 => "/s".to_string(),
        3 => " \u{e9}\u{4e16}".to_string(),
        4 => "_".to_string() + &"w".repeat(300),
        // a trailing separator (style 6 puts one in front instead, see universe_styled)
        5 => ".".to_string(),
        _ => String::new(),
    }
}
pub fn universe_styled(style: u8) -> Universe {
    let sfx = id_suffix(style);
    let mut u = universe_plain();
    for id in u.ids.iter_mut() {
        id.push_str(&sfx);
        if style == 6 {
            id.insert(0, '.');
        }
    }
    u
}
fn universe_plain() -> Universe {
    Universe { ids: ["x0", "x1", "x2", "d.y0", "d.y1", "d.e.z0"].iter().map(|s| s.to_string()).collect(), dirs: ["", "d", "d.e", "nodir"].iter().map(|s| s.to_string()).collect() }
}
pub fn gen_tree(g: &mut SplitMix, u: &Universe, with_recipes: bool) -> Tree {
    let mut t = Tree::default();
    for (i, id) in u.ids.iter().enumerate() {
        for ext in ["a", "b", "c", ""] {
            if g.chance(2, 5) {
                let data = match g.below(12) {
                    0 => "!bad".to_string(),
                    1 => String::new(),
                    2 => format!("  {id} with spaces  "),
                    _ => format!("{id}.{ext}#0"),
                };
                t.put(id, ext, data.as_bytes());
            }
        }
        if with_recipes && g.chance(1, 2) {
            let r = gen_recipe(g, u, 2, i);
            t.put(id, "rc", serde_json::to_string(&r).unwrap().as_bytes());
        }
    }
    t.order_seed = if g.chance(1, 4) { 0 } else { g.next() | 1 };
    if g.chance(1, 2) {
        t.dirs.insert("d".into());
    }
    if g.chance(1, 3) {
        t.dirs.insert("d.e".into());
        t.dirs.insert("d".into());
    }
    t
}
pub fn gen_ty(g: &mut SplitMix) -> Ty {
    match g.below(10) {
        0 | 1 | 2 => *g.pick(&[Ty::LA, Ty::LAB, Ty::LS]),
        3 | 4 => *g.pick(&LEAVES),
        5 | 6 => *g.pick(&[Ty::RA, Ty::RB, Ty::RS, Ty::ArcRA, Ty::ArcLA, Ty::ArcLS]),
        _ => *g.pick(&ALL_TYS),
    }
}
pub fn gen_id(g: &mut SplitMix, u: &Universe, ty: Ty) -> String {
    match ty.kind() {
        Kind::Dir | Kind::RDir => g.pick(&u.dirs).clone(),
        _ => g.pick(&u.ids).clone(),
    }
}
/// Histories without reloads (C02) may let a load insert a placeholder under the very key being loaded (re-entrant
/// insertion); scenarios with a convergence oracle may not (a value that embeds its own previous value has no fixpoint).
pub static SELF_INSERT_OK: std::sync::atomic::AtomicBool = std::sync::atomic::AtomicBool::new(false);
/// Recipe of the compound stored at `u.ids[owner]`: it may *load* recipe compounds only at ids of lower index
/// (a load cycle is infinite recursion in the library by construction); look-ups with get_cached may point anywhere.
pub fn gen_recipe(g: &mut SplitMix, u: &Universe, depth: u32, owner: usize) -> Vec<Ins> {
    (0..g.below(4)).map(|_| gen_ins(g, u, depth, owner)).collect()
}
pub fn gen_ins(g: &mut SplitMix, u: &Universe, depth: u32, owner: usize) -> Ins {
    let mut ty = gen_ty(g);
    let mut id = gen_id(g, u, ty);
    let choice = g.below(if depth > 0 { 16 } else { 12 });
    // loads of recipe compounds must be acyclic (a load cycle is infinite recursion by construction) and so must
    // look-ups be here: a value that embeds its own previous value has no fixpoint to converge to (cyclic look-ups are C08's subject)
    let refers = matches!(choice, 0..=6 | 9) || choice >= 15;
    if refers && ty.kind() == Kind::Rec {
        if owner == 0 {
            ty = Ty::LA;
        } else {
            id = u.ids[g.below(owner as u64) as usize].clone();
        }
    }
    match choice {
        0 | 1 | 2 => Ins::Load(ty, id),
        3 => Ins::LoadQ(ty, id),
        4 | 5 => Ins::Cached(ty, id),
        6 => Ins::Owned(ty, id),
        7 => Ins::Read(g.pick(&u.ids).clone(), g.pick(&["a", "b", "rc"]).to_string()),
        8 => Ins::ReadDir(g.pick(&u.dirs).clone()),
        9 => {
            if g.chance(1, 2) && insertable(ty) {
                // a placeholder inserted from inside a load; one time in three under the id being loaded
                let own = g.chance(1, 3) && SELF_INSERT_OK.load(std::sync::atomic::Ordering::Relaxed);
                let target = if own { u.ids[owner].clone() } else { id };
                if ty.kind() == Kind::Rec && !own && owner == 0 {
                    Ins::Val(6)
                } else {
                    Ins::Insert(if ty.kind() == Kind::Rec { Ty::RA } else { ty }, target, 50 + g.below(5))
                }
            } else {
                Ins::Val(g.below(5))
            }
        }
        10 => {
            if g.chance(1, 4) {
                Ins::Fail
            } else {
                Ins::Val(7)
            }
        }
        11 => {
            if g.chance(1, 5) {
                Ins::Panic
            } else {
                Ins::Val(8)
            }
        }
        12 | 13 => Ins::NoRec((0..1 + g.below(2)).map(|_| gen_ins(g, u, depth - 1, owner)).collect()),
        14 => Ins::Catch((0..1 + g.below(3)).map(|_| gen_ins(g, u, depth - 1, owner)).collect()),
        _ => Ins::Load(ty, id),
    }
}
pub fn live_count() -> usize {
    ledger::live().len()
}
