//! Shared types of the harness: cases, knobs, outcomes, the property interface.
use detsim::{Policy, RunConfig, RwPolicy, SplitMix};
use serde::{Deserialize, Serialize};
use serde_json::Value;
use std::collections::BTreeMap;

pub const DEFAULT_SEED: u64 = 20260927;

#[derive(Clone, Copy, Debug, PartialEq, Eq)]
pub enum Tier {
    Quick,
    Thorough,
}

pub fn flavour() -> &'static str {
    if cfg!(feature = "pl") {
        "pl"
    } else if cfg!(feature = "ahash") {
        "std"
    } else {
        "sip"
    }
}

#[derive(Clone, Debug, Serialize, Deserialize, PartialEq)]
pub struct Knobs {
    /// "random" | "sticky:NN" | "pct:D:LEN" | "rr"
    pub policy: String,
    /// "writer" | "reader"
    pub rw: String,
    pub shards: Option<usize>,
    pub spurious_pct: u8,
    pub atomic_mask: u32,
    pub max_steps: u64,
    pub spin_limit: u64,
}
impl Default for Knobs {
    fn default() -> Self {
        Knobs { policy: "random".into(), rw: "writer".into(), shards: Some(4), spurious_pct: 0, atomic_mask: detsim::AT_RELOAD | detsim::AT_TOKEN, max_steps: 200_000, spin_limit: 2_000 }
    }
}
impl Knobs {
    /// Swarm-style draw of the scheduler / configuration knobs from the `knob` stream.
    pub fn draw(r: &mut SplitMix) -> Knobs {
        let policy = match r.below(8) {
            0 | 1 | 2 => "random".to_string(),
            3 => "sticky:50".to_string(),
            4 => "sticky:80".to_string(),
            5 => "sticky:95".to_string(),
            6 => format!("pct:{}:{}", 1 + r.below(3), [50, 200, 1000][r.below(3) as usize]),
            _ => format!("pct:{}:{}", 1 + r.below(2), 100),
        };
        let rw = if r.chance(2, 3) { "writer" } else { "reader" }.to_string();
        let shards = Some([1usize, 1, 2, 3, 4, 6, 12, 16, 64, 256][r.below(10) as usize]);
        let spurious_pct = if r.chance(1, 3) { [1u8, 5, 20][r.below(3) as usize] } else { 0 };
        Knobs { policy, rw, shards, spurious_pct, ..Default::default() }
    }
    pub fn to_config(&self, seed: u64, tape: Option<Vec<u32>>) -> RunConfig {
        let mut c = RunConfig::new(seed);
        c.policy = parse_policy(&self.policy);
        c.rw_policy = if self.rw == "reader" { RwPolicy::ReaderPref } else { RwPolicy::WriterPref };
        c.shards = self.shards;
        c.spurious_pct = self.spurious_pct;
        c.atomic_mask = self.atomic_mask;
        c.max_steps = self.max_steps;
        c.spin_limit = self.spin_limit;
        c.tape = tape;
        c.trace = std::env::var_os("SIM_TRACE").is_some();
        c
    }
}
pub fn parse_policy(s: &str) -> Policy {
    let p: Vec<&str> = s.split(':').collect();
    match p[0] {
        "sticky" => Policy::Sticky(p.get(1).and_then(|x| x.parse().ok()).unwrap_or(80)),
        "pct" => Policy::Pct(p.get(1).and_then(|x| x.parse().ok()).unwrap_or(2), p.get(2).and_then(|x| x.parse().ok()).unwrap_or(200)),
        "rr" => Policy::RoundRobin,
        _ => Policy::Random,
    }
}

/// One exactly repeatable execution: everything needed to re-run it.
#[derive(Clone, Debug, Serialize, Deserialize)]
pub struct Case {
    pub prop: String,
    pub flavour: String,
    /// VERIF_SEED of the batch and index of the run inside it (informational once `work` is concrete)
    pub verif_seed: u64,
    pub index: u64,
    /// per-run seed: seeds the scheduler and hash streams
    pub seed: u64,
    pub knobs: Knobs,
    /// the concrete workload (threads, operations, trees, recipes, edits, fault plan) of the property
    pub work: Value,
    /// when present, scheduling decisions are replayed from here instead of the PRNG
    pub tape: Option<Vec<u32>>,
}

#[derive(Clone, Debug, Serialize, Deserialize, PartialEq)]
pub struct Fail {
    pub rule: String,
    pub msg: String,
    /// classifier output used to match known findings
    pub sig: String,
}

#[derive(Clone, Debug, Default)]
pub struct Outcome {
    pub fail: Option<Fail>,
    pub digest: u64,
    pub steps: u64,
    pub switches: u64,
    pub threads: usize,
    /// the run exercised what the property is about (rule stated by the property)
    pub nontrivial: bool,
    /// digest of the workload shape (for distinct counting together with the tape digest)
    pub shape: u64,
    pub counters: BTreeMap<String, u64>,
    pub tape: Vec<u32>,
    pub trace: Vec<String>,
    /// simulated runs executed inside this evaluation beyond the first (fault enumeration runs one per fault position)
    pub extra_evals: u64,
    /// distinct non-trivial inner runs (hashes), when the evaluation enumerates several
    pub extra_distinct: Vec<u64>,
    /// when the failing execution was a specialisation of the case (e.g. one fault position), the workload to replay
    pub work_override: Option<Value>,
}

pub struct PropInfo {
    pub level: &'static str,
    pub rule: &'static str,
    pub real: &'static [&'static str],
    pub stub: &'static [&'static str],
    pub assumptions: &'static [&'static str],
    /// runs per tier: (quick, thorough)
    pub runs: (u64, u64),
}

pub trait Property: Sync {
    fn id(&self) -> &'static str;
    fn info(&self) -> PropInfo;
    /// Draw knobs and a concrete workload for run `index`.
    fn generate(&self, gen: &mut SplitMix, knob: &mut SplitMix, tier: Tier) -> (Knobs, Value);
    fn execute(&self, case: &Case) -> Outcome;
    /// Candidate simplifications of a workload (each strictly smaller), most aggressive first.
    fn shrink(&self, _work: &Value) -> Vec<Value> {
        vec![]
    }
}

pub fn prop_tag(id: &str) -> u64 {
    id.bytes().fold(0xcbf29ce484222325u64, |h, b| (h ^ b as u64).wrapping_mul(0x100000001b3))
}
pub fn run_seed(verif_seed: u64, prop: &str, index: u64) -> u64 {
    detsim::mix(detsim::mix(verif_seed, prop_tag(prop)), index)
}
pub fn make_case(p: &dyn Property, verif_seed: u64, index: u64, tier: Tier) -> Case {
    let seed = run_seed(verif_seed, p.id(), index);
    let mut gen = SplitMix::new(detsim::mix(seed, 0x67656e));
    let mut knob = SplitMix::new(detsim::mix(seed, 0x6b6e6f62));
    let (knobs, work) = p.generate(&mut gen, &mut knob, tier);
    Case { prop: p.id().to_string(), flavour: flavour().to_string(), verif_seed, index, seed, knobs, work, tape: None }
}

pub fn fnv(bytes: &[u8]) -> u64 {
    bytes.iter().fold(0xcbf29ce484222325u64, |h, b| (h ^ *b as u64).wrapping_mul(0x100000001b3))
}
pub fn tape_digest(t: &[u32]) -> u64 {
    t.iter().fold(0x84222325cbf29ce4u64, |h, b| (h ^ *b as u64).wrapping_mul(0x100000001b3).rotate_left(5))
}

/// Standard conversion of a finished simulator run into an Outcome.
pub fn outcome_from(r: detsim::RunResult, nontrivial: bool, shape: u64, sig: impl FnOnce(&detsim::Failure) -> String) -> Outcome {
    let fail = r.failure.as_ref().map(|f| Fail { rule: f.rule(), msg: truncate(&f.message(), 1500), sig: sig(f) });
    let mut counters: BTreeMap<String, u64> = r.counters.iter().map(|(k, v)| (k.to_string(), *v)).collect();
    if r.leaked_threads > 0 {
        counters.insert("harness.leaked_threads".into(), r.leaked_threads as u64);
    }
    Outcome { fail, digest: r.digest, steps: r.steps, switches: r.switches, threads: r.max_threads, nontrivial, shape, counters, tape: r.tape, trace: r.trace, extra_evals: 0, extra_distinct: vec![], work_override: None }
}
pub fn truncate(s: &str, n: usize) -> String {
    if s.len() <= n {
        s.to_string()
    } else {
        let mut e = n;
        while !s.is_char_boundary(e) {
            e -= 1;
        }
        format!("{}…", &s[..e])
    }
}

/// Shared slot to carry results out of the simulated main thread.
pub type Shared<T> = std::sync::Arc<std::sync::Mutex<T>>;
pub fn shared<T>(t: T) -> Shared<T> {
    std::sync::Arc::new(std::sync::Mutex::new(t))
}

/// Where runs put their temporary trees and archives: inside the orchestrator's scratch directory (removed when the
/// batch ends, also when a worker was killed), else /dev/shm or the system temp dir.
pub fn scratch_base() -> std::path::PathBuf {
    if let Some(d) = std::env::var_os("SIMCHECK_SCRATCH") {
        return std::path::PathBuf::from(d);
    }
    if std::path::Path::new("/dev/shm").is_dir() {
        std::path::PathBuf::from("/dev/shm")
    } else {
        std::env::temp_dir()
    }
}
