//! Stub fidelity (DESIGN §11): the simulator's channel / Select / OnceCell / std-style lock models are compared with
//! the real crates on single-threaded operation sequences. Any difference is a harness error (exit 2), never a verdict.
use detsim::{chan, once, stdsync, SplitMix};
use std::sync::{Arc, Mutex};

#[derive(Clone, Debug)]
enum COp {
    Send(usize, u32),
    TryRecv(usize),
    DropSender(usize),
    CloneSender(usize),
    DropReceiver(usize),
    Ready,
    ReadyBiased,
    RemoveAndReady(usize),
    Len(usize),
}

fn gen(r: &mut SplitMix) -> Vec<COp> {
    (0..4 + r.below(12))
        .map(|_| {
            let c = r.below(2) as usize;
            match r.below(12) {
                0 | 1 | 2 => COp::Send(c, r.below(100) as u32),
                3 | 4 | 5 => COp::TryRecv(c),
                6 => COp::DropSender(c),
                7 => COp::CloneSender(c),
                8 => COp::DropReceiver(c),
                9 => COp::Len(c),
                10 => COp::ReadyBiased,
                _ => COp::RemoveAndReady(c),
            }
        })
        .chain(std::iter::once(COp::Ready))
        .collect()
}

/// `ready` is only called when at least one channel is ready (it would block otherwise); the set of ready
/// indexes is what is compared, since the choice among several is left to the implementation.
fn run_real(ops: &[COp]) -> Vec<String> {
    let mut tx: Vec<Vec<real_chan::Sender<u32>>> = vec![];
    let mut rx: Vec<Option<real_chan::Receiver<u32>>> = vec![];
    for _ in 0..2 {
        let (t, r) = real_chan::unbounded();
        tx.push(vec![t]);
        rx.push(Some(r));
    }
    let mut out = vec![];
    for op in ops {
        out.push(match op {
            COp::Send(c, v) => match tx[*c].first() {
                Some(t) => format!("send:{}", t.send(*v).is_ok()),
                None => "send:none".into(),
            },
            COp::TryRecv(c) => match &rx[*c] {
                Some(r) => format!("recv:{:?}", r.try_recv().map_err(|e| matches!(e, real_chan::TryRecvError::Disconnected))),
                None => "recv:none".into(),
            },
            COp::DropSender(c) => {
                tx[*c].pop();
                "ok".into()
            }
            COp::CloneSender(c) => {
                if let Some(t) = tx[*c].first().cloned() {
                    tx[*c].push(t);
                }
                "ok".into()
            }
            COp::DropReceiver(c) => {
                rx[*c] = None;
                "ok".into()
            }
            COp::Len(c) => format!("len:{:?}", rx[*c].as_ref().map(|r| r.len())),
            COp::Ready | COp::ReadyBiased | COp::RemoveAndReady(_) => {
                let live: Vec<(usize, &real_chan::Receiver<u32>)> = rx.iter().enumerate().filter_map(|(i, r)| r.as_ref().map(|r| (i, r))).collect();
                // ready set = non-empty or disconnected
                let set: Vec<usize> = live.iter().filter(|(_, r)| !r.is_empty() || r.try_recv() == Err(real_chan::TryRecvError::Disconnected)).map(|x| x.0).collect();
                let skip = if let COp::RemoveAndReady(k) = op { Some(*k) } else { None };
                let set: Vec<usize> = set.into_iter().filter(|i| Some(*i) != skip).collect();
                if set.is_empty() {
                    "ready:would-block".into()
                } else {
                    let mut sel = if matches!(op, COp::ReadyBiased) { real_chan::Select::new_biased() } else { real_chan::Select::new() };
                    let idx: Vec<usize> = live.iter().map(|(_, r)| sel.recv(r)).collect();
                    if let Some(k) = skip {
                        if let Some(p) = live.iter().position(|x| x.0 == k) {
                            sel.remove(idx[p]);
                        }
                    }
                    let got = live[sel.ready()].0;
                    assert!(set.contains(&got), "real crossbeam reported a non-ready index");
                    if matches!(op, COp::ReadyBiased) {
                        format!("ready-biased:{got}")
                    } else {
                        format!("ready-in:{set:?}")
                    }
                }
            }
        });
    }
    out
}
fn run_sim(ops: &[COp]) -> Vec<String> {
    let mut tx: Vec<Vec<chan::Sender<u32>>> = vec![];
    let mut rx: Vec<Option<chan::Receiver<u32>>> = vec![];
    for _ in 0..2 {
        let (t, r) = chan::unbounded();
        tx.push(vec![t]);
        rx.push(Some(r));
    }
    let mut out = vec![];
    for op in ops {
        out.push(match op {
            COp::Send(c, v) => match tx[*c].first() {
                Some(t) => format!("send:{}", t.send(*v).is_ok()),
                None => "send:none".into(),
            },
            COp::TryRecv(c) => match &rx[*c] {
                Some(r) => format!("recv:{:?}", r.try_recv().map_err(|e| matches!(e, chan::TryRecvError::Disconnected))),
                None => "recv:none".into(),
            },
            COp::DropSender(c) => {
                tx[*c].pop();
                "ok".into()
            }
            COp::CloneSender(c) => {
                if let Some(t) = tx[*c].first().cloned() {
                    tx[*c].push(t);
                }
                "ok".into()
            }
            COp::DropReceiver(c) => {
                rx[*c] = None;
                "ok".into()
            }
            COp::Len(c) => format!("len:{:?}", rx[*c].as_ref().map(|r| r.len())),
            COp::Ready | COp::ReadyBiased | COp::RemoveAndReady(_) => {
                let live: Vec<(usize, &chan::Receiver<u32>)> = rx.iter().enumerate().filter_map(|(i, r)| r.as_ref().map(|r| (i, r))).collect();
                // what the model itself considers ready is observed through a biased select over each channel alone
                let mut set = vec![];
                for (i, r) in &live {
                    let alone_ready = !r.is_empty() || {
                        // probing emptiness + disconnection without consuming: try_recv on an empty channel
                        r.is_empty() && matches!(r.try_recv(), Err(chan::TryRecvError::Disconnected))
                    };
                    if alone_ready {
                        set.push(*i);
                    }
                }
                let skip = if let COp::RemoveAndReady(k) = op { Some(*k) } else { None };
                let set: Vec<usize> = set.into_iter().filter(|i| Some(*i) != skip).collect();
                if set.is_empty() {
                    "ready:would-block".into()
                } else {
                    let mut sel = if matches!(op, COp::ReadyBiased) { chan::Select::new_biased() } else { chan::Select::new() };
                    let idx: Vec<usize> = live.iter().map(|(_, r)| sel.recv(r)).collect();
                    if let Some(k) = skip {
                        if let Some(p) = live.iter().position(|x| x.0 == k) {
                            sel.remove(idx[p]);
                        }
                    }
                    let got = live[sel.ready()].0;
                    assert!(set.contains(&got), "simulated Select reported a non-ready index {got} (ready {set:?})");
                    if matches!(op, COp::ReadyBiased) {
                        format!("ready-biased:{got}")
                    } else {
                        format!("ready-in:{set:?}")
                    }
                }
            }
        });
    }
    out
}

fn once_real(plan: &[u8]) -> Vec<String> {
    let c: real_once::sync::OnceCell<u32> = real_once::sync::OnceCell::new();
    let mut out = vec![];
    for (i, p) in plan.iter().enumerate() {
        out.push(match p {
            0 => format!("get:{:?}", c.get()),
            1 => format!("init-ok:{:?}", c.get_or_try_init(|| Ok::<u32, ()>(i as u32))),
            2 => format!("init-err:{:?}", c.get_or_try_init(|| Err::<u32, ()>(()))),
            _ => format!("init-panic:{:?}", std::panic::catch_unwind(std::panic::AssertUnwindSafe(|| c.get_or_init(|| std::panic::resume_unwind(Box::new(1u8))))).map(|v| *v).map_err(|_| ())),
        });
    }
    out
}
fn once_sim(plan: &[u8]) -> Vec<String> {
    let c: once::OnceCell<u32> = once::OnceCell::new();
    let mut out = vec![];
    for (i, p) in plan.iter().enumerate() {
        out.push(match p {
            0 => format!("get:{:?}", c.get()),
            1 => format!("init-ok:{:?}", c.get_or_try_init(|| Ok::<u32, ()>(i as u32))),
            2 => format!("init-err:{:?}", c.get_or_try_init(|| Err::<u32, ()>(()))),
            _ => format!("init-panic:{:?}", std::panic::catch_unwind(std::panic::AssertUnwindSafe(|| c.get_or_init(|| std::panic::resume_unwind(Box::new(1u8))))).map(|v| *v).map_err(|_| ())),
        });
    }
    out
}

fn poison_real() -> Vec<String> {
    let m = std::sync::Mutex::new(1);
    let l = std::sync::RwLock::new(2);
    let mut out = vec![];
    let _ = std::panic::catch_unwind(std::panic::AssertUnwindSafe(|| {
        let _g = m.lock().unwrap();
        let _w = l.write().unwrap();
        std::panic::resume_unwind(Box::new(1u8));
    }));
    out.push(format!("mutex poisoned:{}", m.lock().is_err()));
    out.push(format!("rw read poisoned:{}", l.read().is_err()));
    out.push(format!("value through poison:{}", *m.lock().unwrap_or_else(|e| e.into_inner())));
    let l2 = std::sync::RwLock::new(3);
    let _ = std::panic::catch_unwind(std::panic::AssertUnwindSafe(|| {
        let _r = l2.read().unwrap();
        std::panic::resume_unwind(Box::new(1u8));
    }));
    out.push(format!("read guard does not poison:{}", l2.write().is_ok()));
    out.push(format!("into_inner:{:?}", l.into_inner().map_err(|e| e.into_inner())));
    out
}
fn poison_sim() -> Vec<String> {
    let m = stdsync::Mutex::new(1);
    let l = stdsync::RwLock::new(2);
    let mut out = vec![];
    let _ = std::panic::catch_unwind(std::panic::AssertUnwindSafe(|| {
        let _g = m.lock().unwrap();
        let _w = l.write().unwrap();
        std::panic::resume_unwind(Box::new(1u8));
    }));
    out.push(format!("mutex poisoned:{}", m.lock().is_err()));
    out.push(format!("rw read poisoned:{}", l.read().is_err()));
    out.push(format!("value through poison:{}", *m.lock().unwrap_or_else(|e| e.into_inner())));
    let l2 = stdsync::RwLock::new(3);
    let _ = std::panic::catch_unwind(std::panic::AssertUnwindSafe(|| {
        let _r = l2.read().unwrap();
        std::panic::resume_unwind(Box::new(1u8));
    }));
    out.push(format!("read guard does not poison:{}", l2.write().is_ok()));
    out.push(format!("into_inner:{:?}", l.into_inner().map_err(|e| e.into_inner())));
    out
}

fn in_sim<T: Send + 'static>(seed: u64, f: impl FnOnce() -> T + Send + 'static) -> T {
    let slot: Arc<Mutex<Option<T>>> = Arc::new(Mutex::new(None));
    let s2 = slot.clone();
    let mut cfg = detsim::RunConfig::new(seed);
    cfg.panic_is_failure = false;
    let r = detsim::run(cfg, move || {
        *s2.lock().unwrap() = Some(f());
    });
    if let Some(f) = r.failure {
        eprintln!("HARNESS-ERROR: fidelity scenario failed inside the simulator: {f:?}");
        std::process::exit(2);
    }
    let v = slot.lock().unwrap().take().expect("scenario result");
    v
}

/// What the C12 / C15 scenarios deliver through the notify stub for a real operation, compared with what the real
/// notify crate (inotify back-end) reports for the same operation on a scratch directory. Real time and a real
/// watcher thread: this runs outside the simulator and only validates the stub's table. If inotify is not usable
/// here (no watcher can be created) the comparison is skipped with a note; a difference is printed as a warning.
fn notify_kinds() {
    use real_notify::event::*;
    use real_notify::{RecursiveMode, Watcher};
    use std::time::{Duration, Instant};
    let dir = std::env::temp_dir().join(format!("verif-fidelity-notify-{}", std::process::id()));
    let _ = std::fs::remove_dir_all(&dir);
    std::fs::create_dir_all(&dir).unwrap();
    let dir = dir.canonicalize().unwrap();
    let log: Arc<Mutex<Vec<(EventKind, Vec<std::path::PathBuf>)>>> = Default::default();
    let l2 = log.clone();
    let mut w = match real_notify::recommended_watcher(move |e: real_notify::Result<real_notify::Event>| {
        if let Ok(e) = e {
            l2.lock().unwrap().push((e.kind, e.paths));
        }
    }) {
        Ok(w) => w,
        Err(e) => {
            println!("fidelity note: no inotify watcher available here ({e}); notification kinds not compared");
            let _ = std::fs::remove_dir_all(&dir);
            return;
        }
    };
    if let Err(e) = w.watch(&dir, RecursiveMode::Recursive) {
        println!("fidelity note: cannot watch a scratch directory ({e}); notification kinds not compared");
        let _ = std::fs::remove_dir_all(&dir);
        return;
    }
    // (operation, the (kind, path) pairs the stub's table delivers for it)
    let f = dir.join("a.x");
    let g = dir.join("b.x");
    let d = dir.join("sub");
    type Step<'a> = (&'a str, Box<dyn Fn() + 'a>, Vec<(EventKind, std::path::PathBuf)>);
    let steps: Vec<Step> = vec![
        ("create file", Box::new(|| std::fs::write(&f, b"1").unwrap()), vec![(EventKind::Create(CreateKind::File), f.clone())]),
        ("write file", Box::new(|| std::fs::write(&f, b"22").unwrap()), vec![(EventKind::Modify(ModifyKind::Data(DataChange::Any)), f.clone())]),
        ("rename file", Box::new(|| std::fs::rename(&f, &g).unwrap()), vec![(EventKind::Modify(ModifyKind::Name(RenameMode::From)), f.clone()), (EventKind::Modify(ModifyKind::Name(RenameMode::To)), g.clone())]),
        ("remove file", Box::new(|| std::fs::remove_file(&g).unwrap()), vec![(EventKind::Remove(RemoveKind::File), g.clone())]),
        ("create directory", Box::new(|| std::fs::create_dir(&d).unwrap()), vec![(EventKind::Create(CreateKind::Folder), d.clone())]),
        ("remove directory", Box::new(|| std::fs::remove_dir(&d).unwrap()), vec![(EventKind::Remove(RemoveKind::Folder), d.clone())]),
    ];
    let mut seen_total = 0;
    for (what, op, expect) in &steps {
        log.lock().unwrap().clear();
        op();
        let t0 = Instant::now();
        let mut missing = expect.clone();
        while !missing.is_empty() && t0.elapsed() < Duration::from_secs(5) {
            std::thread::sleep(Duration::from_millis(20));
            let got = log.lock().unwrap().clone();
            missing.retain(|(k, p)| !got.iter().any(|(gk, gp)| gk == k && gp.first() == Some(p)));
        }
        let got = log.lock().unwrap().clone();
        if got.is_empty() && seen_total == 0 {
            println!("fidelity note: the watcher reports nothing for {what} within 5 s; notification kinds not compared");
            let _ = std::fs::remove_dir_all(&dir);
            return;
        }
        seen_total += got.len();
        if !missing.is_empty() {
            // real time and a real kernel queue: reported, not fatal (the notify version is pinned by Cargo.lock, so a
            // difference here is about this machine's inotify, not about the library)
            println!("fidelity WARNING: notify stub table differs from what the real notify crate reported within 5 s for `{what}`:\n the scenarios deliver {expect:?}\n inotify reported    {got:?}");
            let _ = std::fs::remove_dir_all(&dir);
            return;
        }
        // nothing the real back-end reports besides these may be of a kind the handler acts on for another path
        for (k, p) in &got {
            let acts = !matches!(k, EventKind::Access(_) | EventKind::Other);
            let ours = p.iter().all(|x| expect.iter().any(|(_, e)| e == x) || x == &dir);
            if acts && !ours {
                println!("fidelity WARNING: the real notify crate reports {k:?} for {p:?} during `{what}`, a path the stub's table does not mention");
                let _ = std::fs::remove_dir_all(&dir);
                return;
            }
        }
    }
    drop(w);
    let _ = std::fs::remove_dir_all(&dir);
    println!("fidelity ok: notification kinds delivered by the stub for create / write / rename / remove of files and directories are the ones the real notify crate reports (inotify, {seen_total} events seen)");
}

fn main() {
    detsim::install_quiet_panic_hook();
    std::panic::set_hook(Box::new(|_| {}));
    let n: u64 = std::env::args().nth(1).and_then(|s| s.parse().ok()).unwrap_or(3000);
    let mut r = SplitMix::new(0xF1DE);
    for i in 0..n {
        let ops = gen(&mut r);
        let real = run_real(&ops);
        let o2 = ops.clone();
        let sim = in_sim(i, move || run_sim(&o2));
        if real != sim {
            eprintln!("HARNESS-ERROR: channel model differs from crossbeam-channel on {ops:?}\n real {real:?}\n sim  {sim:?}");
            std::process::exit(2);
        }
        let plan: Vec<u8> = (0..2 + r.below(6)).map(|_| r.below(4) as u8).collect();
        let real = once_real(&plan);
        let p2 = plan.clone();
        let sim = in_sim(i, move || once_sim(&p2));
        if real != sim {
            eprintln!("HARNESS-ERROR: OnceCell model differs from once_cell on {plan:?}\n real {real:?}\n sim  {sim:?}");
            std::process::exit(2);
        }
    }
    let (a, b) = (poison_real(), in_sim(1, poison_sim));
    if a != b {
        eprintln!("HARNESS-ERROR: std-style lock model differs from std::sync on poisoning\n real {a:?}\n sim  {b:?}");
        std::process::exit(2);
    }
    // parking_lot: no poisoning, guards release on unwind
    let m = real_pl::Mutex::new(1);
    let _ = std::panic::catch_unwind(std::panic::AssertUnwindSafe(|| {
        let _g = m.lock();
        std::panic::resume_unwind(Box::new(1u8));
    }));
    let real_ok = m.try_lock().is_some();
    let sim_ok = in_sim(2, || {
        let m = detsim::sync::Mutex::new(1);
        let _ = std::panic::catch_unwind(std::panic::AssertUnwindSafe(|| {
            let _g = m.lock();
            std::panic::resume_unwind(Box::new(1u8));
        }));
        let v = *m.lock();
        v == 1
    });
    if real_ok != sim_ok {
        eprintln!("HARNESS-ERROR: parking_lot-style mutex model differs on unwind");
        std::process::exit(2);
    }
    notify_kinds();
    println!("fidelity ok: {n} channel/Select sequences, {n} OnceCell sequences, poisoning and unwind behaviour agree with the real crates");
}
