//! `notify` with the real event types and a simulated back-end: watchers register their handler with
//! `detsim::notify_stub`; the harness delivers `notify::Result<Event>` values on a simulated thread.
pub use real::{event, Config, Error, ErrorKind, Event, EventHandler, EventKind, RecursiveMode, Result, WatcherKind};
use std::path::Path;
use std::sync::{Arc, Mutex};

pub struct RecommendedWatcher {
    idx: usize,
}
impl std::fmt::Debug for RecommendedWatcher {
    fn fmt(&self, f: &mut std::fmt::Formatter<'_>) -> std::fmt::Result {
        f.pad("SimWatcher")
    }
}
pub fn recommended_watcher<F: EventHandler>(mut h: F) -> Result<RecommendedWatcher> {
    let f: Box<dyn FnMut(Box<dyn std::any::Any + Send>) + Send> = Box::new(move |p| {
        if let Ok(ev) = p.downcast::<Result<Event>>() {
            h.handle_event(*ev);
        }
    });
    let idx = detsim::notify_stub::register(Arc::new(Mutex::new(f)));
    Ok(RecommendedWatcher { idx })
}
pub trait Watcher {
    fn watch(&mut self, path: &Path, mode: RecursiveMode) -> Result<()>;
    fn unwatch(&mut self, path: &Path) -> Result<()>;
}
impl Watcher for RecommendedWatcher {
    fn watch(&mut self, p: &Path, _m: RecursiveMode) -> Result<()> {
        if !p.exists() {
            return Err(Error::path_not_found().add_path(p.to_path_buf()));
        }
        detsim::notify_stub::add_path(self.idx, p.to_path_buf());
        Ok(())
    }
    fn unwatch(&mut self, _p: &Path) -> Result<()> {
        Ok(())
    }
}
impl Drop for RecommendedWatcher {
    fn drop(&mut self) {
        detsim::notify_stub::unregister(self.idx);
    }
}
/// Harness side: deliver an event to watcher `idx`.
pub fn sim_deliver(idx: usize, ev: Result<Event>) -> bool {
    detsim::notify_stub::deliver(idx, Box::new(ev))
}
