pub use detsim::chan::{bounded, unbounded, Receiver, RecvError, Select, SendError, Sender, TryRecvError};
