pub use detsim::chan::{unbounded, Receiver, RecvError, Select, SendError, Sender, TryRecvError};
