pub use detsim::chan::{bounded, unbounded, IntoIter, Iter, Receiver, RecvError, RecvTimeoutError, Select, SendError, Sender, TryIter, TryRecvError, TrySendError};
