pub use detsim::sync::{Condvar, Mutex, MutexGuard, RwLock, RwLockReadGuard, RwLockWriteGuard};
