pub mod sync {
    pub use detsim::once::OnceCell;
}
