//! `ahash` with the real hashing and deterministic per-instance seeds (from the run's `hash` stream).
pub use real::AHasher;
#[derive(Clone, Debug)]
pub struct RandomState(real::RandomState);
impl RandomState {
    pub fn new() -> Self {
        let (a, b, c, d) = (detsim::rng_hash(), detsim::rng_hash(), detsim::rng_hash(), detsim::rng_hash());
        RandomState(real::RandomState::with_seeds(a, b, c, d))
    }
    pub fn with_seeds(a: u64, b: u64, c: u64, d: u64) -> Self {
        RandomState(real::RandomState::with_seeds(a, b, c, d))
    }
}
impl Default for RandomState {
    fn default() -> Self {
        Self::new()
    }
}
impl std::hash::BuildHasher for RandomState {
    type Hasher = real::AHasher;
    fn build_hasher(&self) -> real::AHasher {
        self.0.build_hasher()
    }
}
