#!/bin/sh
# MANIFEST.setup_cmd: offline build of the simulator, the three flavours of the harness and the Miri crate.
set -e
cd "$(dirname "$0")/sim"
export CARGO_NET_OFFLINE=true
cargo build --release --offline -p simcheck --target-dir target/std
cargo build --release --offline -p simcheck --target-dir target/pl --features pl
cargo build --release --offline -p simcheck --target-dir target/sip --no-default-features
# stub fidelity: the simulator's channel / Select / OnceCell / lock models against the real crates (exit 2 on any difference)
cargo build --release --offline -p fidelity --target-dir target/std
./target/std/release/fidelity 3000 || exit 2
if [ -x ../miri/run.py ]; then ../miri/run.py --setup; fi
echo "setup ok"
