#!/usr/bin/env python3
"""Engine B driver: runs the kernels crate under Miri's seeded scheduler.
  run.py --setup                       build once (warms the Miri sysroot and the crate)
  run.py <C16|C17|C18> --tier T --seed S --summary FILE
  run.py --replay FILE
Exit 0 clean / 1 violation (prints VIOLATION line) / 2 harness error.
"""
import json, os, subprocess, sys, time, concurrent.futures as cf

HERE = os.path.dirname(os.path.abspath(__file__))
VERIF = os.path.dirname(HERE)
ENV = dict(os.environ, CARGO_NET_OFFLINE="true")
ENV.pop("RUSTFLAGS", None)
OUT = os.environ.get("VERIF_OUT_DIR") or VERIF
if os.environ.get("VERIF_TARGET_DIR"):
    ENV["CARGO_TARGET_DIR"] = os.path.join(os.environ["VERIF_TARGET_DIR"], "miri")


def splitmix(x):
    x = (x + 0x9E3779B97F4A7C15) & 0xFFFFFFFFFFFFFFFF
    z = x
    z = ((z ^ (z >> 30)) * 0xBF58476D1CE4E5B9) & 0xFFFFFFFFFFFFFFFF
    z = ((z ^ (z >> 27)) * 0x94D049BB133111EB) & 0xFFFFFFFFFFFFFFFF
    return x, z ^ (z >> 31)


# the kernel each property runs under Miri (C13 shares the readers-vs-reloads kernel of C07: its heap values
# are freed by reloads while guards may be alive, which Miri reports as use-after-free / data race)
KERNEL = {"C13": "C07"}


def miri(prop, scenario, flags, timeout=1800):
    env = dict(ENV, MIRIFLAGS=flags)
    p = subprocess.run(["cargo", "+nightly", "miri", "run", "--offline", "-q", "--", KERNEL.get(prop, prop), str(scenario)], cwd=HERE, env=env, capture_output=True, text=True, timeout=timeout)
    return p.returncode, p.stderr + p.stdout


def classify(out):
    for key, kind in (("Undefined Behavior", "undefined-behaviour"), ("Data race", "data-race"), ("memory leaked", "leak"), ("panicked", "assertion"), ("deadlock", "deadlock")):
        if key in out:
            return kind
    return "error"


def first_line(out):
    for l in out.splitlines():
        if "error" in l or "panicked" in l or "C1" in l:
            return l.strip()[:300]
    return out.strip().splitlines()[-1][:300] if out.strip() else ""


def main():
    a = sys.argv[1:]
    if "--setup" in a:
        rc, out = miri("C18", 1, "-Zmiri-seed=0")
        if rc != 0:
            print("HARNESS-ERROR: miri setup run failed\n" + out[-2000:])
            return 2
        return 0
    if "--replay" in a:
        rf = json.load(open(a[a.index("--replay") + 1]))
        rc, out = miri(rf["property"], rf["scenario"], rf["flags"])
        print(out[-3000:])
        if rc != 0:
            print(f"REPLAY property={rf['property']} reproduced: {classify(out)}")
            return 1
        print("REPLAY no violation")
        return 0
    prop = a[0]
    tier = a[a.index("--tier") + 1] if "--tier" in a else "quick"
    seed = int(a[a.index("--seed") + 1]) if "--seed" in a else 20260927
    summary = a[a.index("--summary") + 1] if "--summary" in a else None
    n_scen, n_seeds, rates = (24, 16, ["0.05", "0.4"]) if tier == "quick" else (300, 32, ["0.01", "0.1", "0.5"])
    if prop in ("C01", "C06", "C07", "C13"):
        # whole-cache scenarios (cache + reloader thread + readers) cost ~1 s per execution under Miri
        n_scen, n_seeds, rates = (10, 8, ["0.05", "0.4"]) if tier == "quick" else (120, 16, ["0.01", "0.1", "0.5"])
    if os.environ.get("VERIF_MIRI_SCENARIOS"):
        n_scen = int(os.environ["VERIF_MIRI_SCENARIOS"])
    # warm build (serialises compilation; the parallel runs below then only execute)
    rc, out = miri(prop, 1, "-Zmiri-seed=0")
    if rc != 0 and "error: could not compile" in out:
        print("HARNESS-ERROR: kernels crate does not build under Miri\n" + out[-3000:])
        return 2
    x = seed ^ hash_str(prop)
    scenarios = []
    for _ in range(n_scen):
        x, v = splitmix(x)
        scenarios.append(v % (1 << 48))
    jobs = [(s, r) for s in scenarios for r in rates]
    t0 = time.time()
    failures = []
    done = 0
    with cf.ThreadPoolExecutor(max_workers=16) as ex:
        futs = {ex.submit(miri, prop, s, f"-Zmiri-many-seeds=0..{n_seeds} -Zmiri-preemption-rate={r}"): (s, r) for s, r in jobs}
        for f in cf.as_completed(futs):
            s, r = futs[f]
            try:
                rc, out = f.result()
            except Exception as e:  # timeout
                print(f"HARNESS-ERROR: miri run timed out for scenario {s}: {e}")
                return 2
            done += n_seeds
            if rc != 0:
                failures.append((s, r, out))
    viol = []
    seen = set()
    for s, r, out in failures:
        kind = classify(out)
        if kind in seen:
            continue
        seen.add(kind)
        # find one failing seed to make the replay file exact
        bad = None
        for k in range(n_seeds):
            rc, o2 = miri(prop, s, f"-Zmiri-seed={k} -Zmiri-preemption-rate={r}")
            if rc != 0:
                bad, out = k, o2
                break
        flags = f"-Zmiri-seed={bad} -Zmiri-preemption-rate={r}" if bad is not None else f"-Zmiri-many-seeds=0..{n_seeds} -Zmiri-preemption-rate={r}"
        os.makedirs(os.path.join(OUT, "replays"), exist_ok=True)
        path = os.path.join(OUT, "replays", f"{prop}-miri-{seed}-{s}.json")
        json.dump({"engine": "miri", "property": prop, "scenario": s, "flags": flags, "kind": kind, "message": first_line(out)}, open(path, "w"), indent=1)
        print(f"VIOLATION property={prop} replay={path}")
        print(f"  engine=miri rule={prop}/miri/{kind} scenario={s} {flags}")
        print("  " + first_line(out))
        viol.append({"rule": f"{prop}/miri/{kind}", "replay": path, "msg": first_line(out)})
    wall = time.time() - t0
    ev = len(jobs) * n_seeds
    print(f"SUMMARY engine=miri property={prop} scenarios={n_scen} seeds_per_scenario={n_seeds} preemption_rates={rates} executions={ev} wall_s={wall:.1f}")
    if summary:
        json.dump({
            "evaluations": ev, "distinct_nontrivial": ev,
            "rule": "every execution is one (scenario, Miri seed, preemption rate) triple, all distinct; every scenario has >= 2 threads operating on the shared object",
            "scenarios": n_scen, "miri_seeds_per_scenario": n_seeds, "preemption_rates": rates,
            "executions_per_hour": int(ev / wall * 3600) if wall > 0 else 0, "wall_s": round(wall, 1),
            "oracle": "assertions of the scenario + Miri: undefined behaviour, data races, use-after-free, dealloc layout, leaks at exit",
            "components_real": ["src/utils/bytes.rs", "src/utils/cell.rs", "src/entry.rs", "for C07/C13: the whole cache with hot-reloading over an in-memory source (real std locks, real crossbeam-channel, real reloader thread)", "once_cell (real)", "std atomics"],
            "samples": [{"engine": "miri", "property": prop, "scenario": scenarios[0], "flags": f"-Zmiri-many-seeds=0..{n_seeds} -Zmiri-preemption-rate={rates[0]}"}],
            "violations": len(viol), "violation_list": viol,
        }, open(summary, "w"), indent=1)
    return 1 if viol else 0


def hash_str(s):
    h = 0xcbf29ce484222325
    for c in s.encode():
        h = ((h ^ c) * 0x100000001b3) & 0xFFFFFFFFFFFFFFFF
    return h


if __name__ == "__main__":
    sys.exit(main())
