//! Engine B: small lock-free kernels of assets_manager run on real std threads under Miri's seeded scheduler.
//! argv: <prop> <scenario:u64>. Every random choice of the *workload* comes from `scenario`; every *schedule*
//! choice comes from Miri (-Zmiri-seed). Assertion failures, UB, data races and leaks are the oracle.
use assets_manager::{AtomicReloadId, OnceInitCell, ReloadId, SharedBytes, SharedString};
use std::sync::atomic::{AtomicI64, AtomicU64, Ordering};
use std::sync::{Arc, Mutex};
use std::thread;

struct Rng(u64);
impl Rng {
    fn next(&mut self) -> u64 {
        self.0 = self.0.wrapping_add(0x9E3779B97F4A7C15);
        let mut z = self.0;
        z = (z ^ (z >> 30)).wrapping_mul(0xBF58476D1CE4E5B9);
        z = (z ^ (z >> 27)).wrapping_mul(0x94D049BB133111EB);
        z ^ (z >> 31)
    }
    fn below(&mut self, n: u64) -> u64 {
        if n <= 1 { 0 } else { self.next() % n }
    }
}

fn rid(n: usize) -> ReloadId {
    assert_eq!(std::mem::size_of::<ReloadId>(), std::mem::size_of::<usize>());
    let id: ReloadId = unsafe { std::mem::transmute::<usize, ReloadId>(n) };
    assert_eq!(format!("{id:?}"), format!("ReloadId({n})"), "ReloadId layout assumption");
    id
}
fn num(id: ReloadId) -> usize {
    format!("{id:?}").trim_start_matches("ReloadId(").trim_end_matches(')').parse().unwrap()
}

fn c18(scn: u64) {
    let mut r = Rng(scn);
    let nthreads = 2 + r.below(2) as usize;
    let range = 1 + r.below(4) as usize;
    let init = r.below(2) as usize;
    let a = Arc::new(AtomicReloadId::with_value(rid(init)));
    let results: Arc<Mutex<Vec<(usize, bool)>>> = Arc::new(Mutex::new(Vec::new()));
    let plans: Vec<Vec<(bool, usize)>> = (0..nthreads).map(|_| (0..1 + r.below(3)).map(|_| (r.below(4) != 0, r.below(range as u64 + 1) as usize)).collect()).collect();
    let mx = plans.iter().flatten().map(|p| p.1).max().unwrap_or(0).max(init);
    let hs: Vec<_> = plans
        .into_iter()
        .map(|plan| {
            let (a, results) = (a.clone(), results.clone());
            thread::spawn(move || {
                for (is_update, n) in plan {
                    let grew = if is_update { a.update(rid(n)) } else { rid(n) > a.fetch_max(rid(n)) };
                    results.lock().unwrap().push((n, grew));
                    let now = num(a.load());
                    assert!(now >= n, "C18: after offering {n} the stored id is {now}");
                }
            })
        })
        .collect();
    for h in hs {
        h.join().unwrap();
    }
    let fin = num(a.load());
    assert_eq!(fin, mx, "C18: final value is not the maximum offered");
    let res = results.lock().unwrap();
    let mut winners: Vec<usize> = res.iter().filter(|x| x.1).map(|x| x.0).collect();
    winners.sort();
    let n0 = winners.len();
    winners.dedup();
    assert_eq!(n0, winners.len(), "C18: one growth reported to two callers: {res:?}");
    assert!(mx == init || winners.contains(&mx), "C18: growth to {mx} reported to nobody: {res:?}");
    // strictly increasing winners: each growth is a real growth
    let mut plain = ReloadId::NEVER;
    let mut m = 0;
    for _ in 0..4 {
        let n = r.below(4) as usize;
        assert_eq!(plain.update(rid(n)), n > m, "C18: plain update");
        m = m.max(n);
        assert_eq!(num(plain), m);
    }
}

fn c16(scn: u64) {
    let mut r = Rng(scn);
    let len = match r.below(5) { 0 => 0, 1 => 1, _ => r.below(24) as usize };
    let bytes: Vec<u8> = (0..len).map(|_| b'a' + r.below(26) as u8).collect();
    let ctor = r.below(8);
    let sb: SharedBytes = match ctor {
        0 => SharedBytes::from_slice(&bytes),
        1 => SharedBytes::from_vec(bytes.clone()),
        2 => { let mut v = Vec::with_capacity(len + 1 + r.below(16) as usize); v.extend_from_slice(&bytes); v.into() }
        3 => { let mut v = Vec::new(); v.extend_from_slice(&bytes); v.into() }
        4 => bytes.clone().into_boxed_slice().into(),
        5 => bytes.iter().copied().collect(),
        6 => SharedString::from(String::from_utf8(bytes.clone()).unwrap()).into_bytes(),
        _ => SharedString::from_utf8(SharedBytes::from_slice(&bytes)).unwrap().into_bytes(),
    };
    assert_eq!(&sb[..], &bytes[..]);
    let nthreads = 2 + r.below(2) as usize;
    let early = r.below(2) == 0;
    let hs: Vec<_> = (0..nthreads)
        .map(|_| {
            let mine = sb.clone();
            let expect = bytes.clone();
            let plan: Vec<u64> = (0..r.below(4)).map(|_| r.below(3)).collect();
            thread::spawn(move || {
                let mut v = vec![mine];
                for p in plan {
                    match p {
                        0 => { let c = v.last().unwrap().clone(); v.push(c); }
                        1 => { if v.len() > 1 { v.pop(); } }
                        _ => assert_eq!(&v[0][..], &expect[..], "C16: clone content"),
                    }
                }
                for x in &v { assert_eq!(&x[..], &expect[..], "C16: clone content"); }
            })
        })
        .collect();
    if early { drop(sb); for h in hs { h.join().unwrap(); } } else { for h in hs { h.join().unwrap(); } assert_eq!(&sb[..], &bytes[..]); drop(sb); }
}

static SEED_DROPS: AtomicU64 = AtomicU64::new(0);
static VAL_DROPS: AtomicU64 = AtomicU64::new(0);
static VAL_MADE: AtomicU64 = AtomicU64::new(0);
static INSIDE: AtomicI64 = AtomicI64::new(0);
struct Seed(#[allow(dead_code)] Box<u32>);
impl Drop for Seed { fn drop(&mut self) { SEED_DROPS.fetch_add(1, Ordering::SeqCst); } }
struct Val(Box<u64>);
impl Drop for Val { fn drop(&mut self) { VAL_DROPS.fetch_add(1, Ordering::SeqCst); } }

fn c17_run<U: Send + 'static>(scn: u64, mk: fn() -> U, has_drop: bool) {
    let mut r = Rng(scn ^ 0x17);
    let cell: Arc<OnceInitCell<U, Val>> = Arc::new(OnceInitCell::new(mk()));
    let nthreads = 2 + r.below(2) as usize;
    let successes = Arc::new(AtomicU64::new(0));
    let ptrs: Arc<Mutex<Vec<usize>>> = Arc::new(Mutex::new(Vec::new()));
    let hs: Vec<_> = (0..nthreads)
        .map(|_| {
            let plan: Vec<u64> = (0..1 + r.below(3)).map(|_| r.below(4)).collect();
            let (cell, successes, ptrs) = (cell.clone(), successes.clone(), ptrs.clone());
            thread::spawn(move || {
                for p in plan {
                    if p == 3 {
                        if let Some(v) = cell.get() { ptrs.lock().unwrap().push(v as *const Val as usize); assert!(*v.0 > 0); }
                        continue;
                    }
                    let res = std::panic::catch_unwind(std::panic::AssertUnwindSafe(|| {
                        cell.get_or_try_init(|_u| {
                            assert_eq!(INSIDE.fetch_add(1, Ordering::SeqCst), 0, "C17: two initialisers at once");
                            thread::yield_now();
                            let out = match p {
                                0 => { VAL_MADE.fetch_add(1, Ordering::SeqCst); Ok(Val(Box::new(1 + successes.fetch_add(1, Ordering::SeqCst)))) }
                                1 => Err(()),
                                _ => { INSIDE.fetch_sub(1, Ordering::SeqCst); std::panic::resume_unwind(Box::new(17u8)) }
                            };
                            INSIDE.fetch_sub(1, Ordering::SeqCst);
                            out
                        }).map(|v| (v as *const Val as usize, *v.0))
                    }));
                    if let Ok(Ok((ptr, n))) = res { assert_eq!(n, 1, "C17: second successful initialiser"); ptrs.lock().unwrap().push(ptr); }
                }
            })
        })
        .collect();
    for h in hs { h.join().unwrap(); }
    let s = successes.load(Ordering::SeqCst);
    assert!(s <= 1, "C17: {s} initialisers succeeded");
    let p = ptrs.lock().unwrap();
    assert!(p.windows(2).all(|w| w[0] == w[1]), "C17: callers hold different references");
    assert_eq!(cell.get().is_some(), s == 1);
    if has_drop { assert_eq!(SEED_DROPS.load(Ordering::SeqCst), s, "C17: seed drops before the cell is dropped"); }
    drop(p);
    drop(cell);
    if has_drop { assert_eq!(SEED_DROPS.load(Ordering::SeqCst), 1, "C17: seed dropped exactly once"); }
    assert_eq!(VAL_DROPS.load(Ordering::SeqCst), VAL_MADE.load(Ordering::SeqCst), "C17: every value dropped once");
}
fn c17(scn: u64) {
    if scn % 3 == 0 { c17_run::<u32>(scn, || 5, false) } else { c17_run::<Seed>(scn, || Seed(Box::new(3)), true) }
}

// ---------------------------------------------------------------- C07 / C13: readers vs reloads on the real locks and atomics
mod hot {
    use assets_manager::hot_reloading::EventSender;
    use assets_manager::source::{DirEntry, FileContent, OwnedDirEntry, Source};
    use assets_manager::{loader, Asset, AssetCache, BoxedError};
    use std::collections::HashMap;
    use std::io;
    use std::sync::{Arc, Mutex};

    #[derive(Clone, Default)]
    pub struct Mem {
        files: Arc<Mutex<HashMap<String, Vec<u8>>>>,
        tx: Arc<Mutex<Option<EventSender>>>,
    }
    impl Mem {
        pub fn put(&self, id: &str, v: u64) {
            self.files.lock().unwrap().insert(id.to_string(), v.to_string().into_bytes());
        }
        /// After the cache is dropped: wait until the reloader thread has let go of its end of the event channel
        /// (it does so when its function returns), then give it the time to terminate. Miri reports a main thread
        /// that ends while another thread is still running as an error of the *program*; here it would only be an
        /// artefact of the kernel (the reloader is detached by design), so the kernel waits.
        pub fn wait_reloader_gone(&self) {
            let tx = self.tx.lock().unwrap().take();
            if let Some(tx) = tx {
                for _ in 0..10_000 {
                    if tx.send(OwnedDirEntry::File("none".into(), "v".into())).is_err() {
                        break;
                    }
                    std::thread::sleep(std::time::Duration::from_millis(1));
                }
            }
            std::thread::sleep(std::time::Duration::from_millis(20));
        }
        pub fn notify(&self, id: &str) {
            if let Some(tx) = &*self.tx.lock().unwrap() {
                let _ = tx.send(OwnedDirEntry::File(id.into(), "v".into()));
            }
        }
    }
    impl Source for Mem {
        fn read(&self, id: &str, _ext: &str) -> io::Result<FileContent<'_>> {
            match self.files.lock().unwrap().get(id) {
                Some(b) => Ok(FileContent::Buffer(b.clone())),
                None => Err(io::ErrorKind::NotFound.into()),
            }
        }
        fn read_dir(&self, _id: &str, _f: &mut dyn FnMut(DirEntry)) -> io::Result<()> {
            Err(io::ErrorKind::NotFound.into())
        }
        fn exists(&self, _e: DirEntry) -> bool {
            false
        }
        fn make_source(&self) -> Option<Box<dyn Source + Send>> {
            Some(Box::new(self.clone()))
        }
        fn configure_hot_reloading(&self, ev: EventSender) -> Result<(), BoxedError> {
            *self.tx.lock().unwrap() = Some(ev);
            Ok(())
        }
    }
    /// multi-word Copy value: every word equals the version
    #[derive(Clone, Copy)]
    pub struct Words(pub [u64; 24]);
    impl From<u64> for Words {
        fn from(v: u64) -> Words {
            Words([v; 24])
        }
    }
    impl Asset for Words {
        const EXTENSION: &'static str = "v";
        type Loader = loader::LoadFrom<u64, loader::ParseLoader>;
    }
    /// heap-owning value (drop accounting through Miri's leak / use-after-free detection)
    pub struct Heap(pub Vec<u64>);
    impl From<u64> for Heap {
        fn from(v: u64) -> Heap {
            Heap(vec![v; 8])
        }
    }
    impl Asset for Heap {
        const EXTENSION: &'static str = "v";
        type Loader = loader::LoadFrom<u64, loader::ParseLoader>;
    }

    /// C01: racing creators of one entry on the real sharded map; handles are kept and read after unrelated insertions
    /// (a dangling handle is a use-after-free for Miri, not merely a wrong value).
    pub fn c01(scn: u64) {
        let mut r = super::Rng(scn ^ 0xC01);
        let mem = Mem::default();
        mem.put("a", 7);
        mem.put("b", 8);
        let cache = AssetCache::without_hot_reloading(mem.clone());
        let nthreads = 2 + r.below(2) as usize;
        let plans: Vec<Vec<u64>> = (0..nthreads).map(|_| (0..1 + r.below(3)).map(|_| r.below(5)).collect()).collect();
        let addrs: Arc<Mutex<Vec<(u64, usize)>>> = Default::default();
        std::thread::scope(|s| {
            for (t, plan) in plans.iter().enumerate() {
                let (cache, addrs) = (&cache, addrs.clone());
                s.spawn(move || {
                    let mut mine: Vec<(&assets_manager::Handle<Heap>, u64)> = vec![];
                    for (i, p) in plan.iter().enumerate() {
                        let key = if *p % 2 == 0 { "a" } else { "b" };
                        let h = match p {
                            0 | 1 => cache.load::<Heap>(key).unwrap(),
                            2 | 3 => cache.get_or_insert::<Heap>(key, Heap(vec![100 + t as u64; 8])),
                            _ => {
                                for j in 0..40 {
                                    cache.get_or_insert::<u64>(&format!("fill{t}-{i}-{j}"), j);
                                }
                                continue;
                            }
                        };
                        let v = h.read().0[0];
                        addrs.lock().unwrap().push((*p % 2, h as *const _ as usize));
                        mine.push((h, v));
                    }
                    std::thread::yield_now();
                    for (h, v) in &mine {
                        assert!(h.read().0.iter().all(|w| w == v), "C01: a handle reads another value than when it was obtained");
                    }
                });
            }
        });
        let a = addrs.lock().unwrap();
        for k in 0..2 {
            let mut x: Vec<usize> = a.iter().filter(|e| e.0 == k).map(|e| e.1).collect();
            x.dedup();
            assert!(x.windows(2).all(|w| w[0] == w[1]), "C01: one key was handed out at different addresses");
        }
    }

    /// C06: one rewrite is reported once. After each reload several threads ask `reloaded_global()` at the same time
    /// (exactly one of them may be told true) and each polls a ReloadWatcher of its own (each is told true once).
    pub fn c06(scn: u64) {
        let mut r = super::Rng(scn);
        let mem = Mem::default();
        mem.put("a", 1);
        let cache = AssetCache::with_source(mem.clone());
        let h = cache.load::<Words>("a").unwrap();
        let nthreads = 2 + r.below(2) as usize;
        let reloads = 1 + r.below(2);
        let mut watchers: Vec<_> = (0..nthreads).map(|_| h.reload_watcher()).collect();
        assert!(!h.reloaded_global(), "C06: reloaded_global true before any reload");
        for v in 0..reloads {
            mem.put("a", 2 + v);
            mem.notify("a");
            cache.hot_reload();
            let trues = std::sync::atomic::AtomicUsize::new(0);
            std::thread::scope(|s| {
                for w in watchers.iter_mut() {
                    let trues = &trues;
                    s.spawn(move || {
                        if h.reloaded_global() {
                            trues.fetch_add(1, std::sync::atomic::Ordering::SeqCst);
                        }
                        assert!(w.reloaded(), "C06: a watcher armed before the reload was not told about it");
                        assert!(!w.reloaded(), "C06: a watcher reported the same reload twice");
                    });
                }
            });
            assert_eq!(trues.load(std::sync::atomic::Ordering::SeqCst), 1, "C06: one rewrite, {nthreads} concurrent callers of reloaded_global: exactly one must be told true");
            assert!(!h.reloaded_global(), "C06: reloaded_global true again without a new reload");
        }
        drop(cache);
        mem.wait_reloader_gone();
    }

    pub fn c07(scn: u64) {
        let mut r = super::Rng(scn);
        let mem = Mem::default();
        mem.put("a", 1);
        let cache = AssetCache::with_source(mem.clone());
        let h = cache.load::<Words>("a").unwrap();
        let hh = cache.load::<Heap>("a").unwrap();
        let nreaders = 1 + r.below(2) as usize;
        let reloads = 1 + r.below(2);
        let plans: Vec<Vec<u64>> = (0..nreaders).map(|_| (0..1 + r.below(3)).map(|_| r.below(4)).collect()).collect();
        std::thread::scope(|s| {
            for plan in &plans {
                s.spawn(move || {
                    for p in plan {
                        match p {
                            0 => {
                                let c = h.copied();
                                assert!(c.0.iter().all(|w| *w == c.0[0]), "C07: copied() returned a mixture");
                            }
                            1 => {
                                let g = h.read();
                                let first = g.0[0];
                                let id0 = h.last_reload_id();
                                std::thread::yield_now();
                                assert!(g.0.iter().all(|w| *w == first), "C07: value changed under a guard");
                                assert_eq!(h.last_reload_id(), id0, "C07: reload id changed under a guard");
                            }
                            2 => {
                                let g = hh.read();
                                let v = g.0.clone();
                                std::thread::yield_now();
                                assert_eq!(*g.0, v[..], "C13: heap value changed under a guard");
                            }
                            _ => {
                                let g = assets_manager::AssetReadGuard::map(hh.read(), |x| &x.0[..]);
                                let first = g[0];
                                std::thread::yield_now();
                                assert!(g.iter().all(|w| *w == first), "C07: mapped guard sees a mixture");
                            }
                        }
                    }
                });
            }
            for v in 0..reloads {
                mem.put("a", 2 + v);
                mem.notify("a");
                cache.hot_reload();
                assert_eq!(h.read().0[0], 2 + v, "C07: hot_reload returned before the reload was finished");
            }
        });
        drop(cache);
        mem.wait_reloader_gone();
    }
}

fn main() {
    let a: Vec<String> = std::env::args().collect();
    let scn: u64 = a.get(2).and_then(|s| s.parse().ok()).unwrap_or(0);
    // silence the expected injected panics
    std::panic::set_hook(Box::new(|i| { if i.payload().is::<u8>() { return; } eprintln!("{i}"); }));
    match a.get(1).map(|s| s.as_str()) {
        Some("C16") => c16(scn),
        Some("C17") => c17(scn),
        Some("C18") => c18(scn),
        Some("C06") => hot::c06(scn),
        Some("C07") => hot::c07(scn),
        Some("C01") => hot::c01(scn),
        _ => { eprintln!("usage: kernels C07|C16|C17|C18 <scenario>"); std::process::exit(2) }
    }
}
