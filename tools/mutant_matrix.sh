#!/bin/bash
# usage: mutant_matrix.sh [mutant-dir-name ...]   (default: every directory under /verif/seeded)
# Runs the quick check of each seeded change's own property against it (tools/try_mutant.sh: scratch copy of /repo,
# nothing in /repo or /verif/evidence is touched) and appends one line per change to /verif/seeded/RESULTS.tsv:
#   <change> <property> <exit> <engine> <first rule reported>
# Engine A first; the Miri engine only when engine A reports nothing. Changes listed in OTHER are tried on the
# property of the check that is documented to catch them (DESIGN §17).
cd /verif || exit 2
declare -A OTHER=( [C01-c]=C02 [C02-c]=C01 [C13-d]=C02 [C01-f]=C02 [C09-g]=C05 [C08-b]=C08 [C13-i]=C02 )
out=/verif/seeded/RESULTS.tsv
names=("$@"); [ ${#names[@]} -eq 0 ] && names=($(ls /verif/seeded | grep -E '^C[0-9]{2}-[a-z]$'))
for m in "${names[@]}"; do
  prop=${OTHER[$m]:-${m%%-*}}
  if ! git -C /repo apply --check /verif/seeded/$m/patch.diff 2>/dev/null; then
    printf "%s\t%s\t-\t-\tpatch does not apply on the current tree (see meta.json)\n" $m $prop >> $out; continue
  fi
  # engine A, std flavour first (cheapest); all quick flavours when that reports nothing
  VERIF_FLAVOURS=std VERIF_NO_MIRI=1 TRY_LINES=2 timeout 3000 tools/try_mutant.sh /verif/seeded/$m/patch.diff $prop > /tmp/mm.out 2>&1
  rc=$(grep -o 'exit=[0-9]*' /tmp/mm.out | tail -1 | cut -d= -f2); eng=A
  if [ "$rc" = "0" ]; then
    VERIF_NO_MIRI=1 TRY_LINES=2 timeout 3000 tools/try_mutant.sh /verif/seeded/$m/patch.diff $prop > /tmp/mm.out 2>&1
    rc=$(grep -o 'exit=[0-9]*' /tmp/mm.out | tail -1 | cut -d= -f2)
  fi
  if [ "$rc" = "0" ] && grep -q "\"$prop\"" <<< '"C01" "C06" "C07" "C13" "C16" "C17" "C18"'; then
    TRY_LINES=3 timeout 3000 tools/try_mutant.sh /verif/seeded/$m/patch.diff $prop > /tmp/mm.out 2>&1
    rc=$(grep -o 'exit=[0-9]*' /tmp/mm.out | tail -1 | cut -d= -f2); eng=A+miri
  fi
  rule=$(grep -o 'rule=[^ ]*' /tmp/mm.out | head -1)
  printf "%s\t%s\t%s\t%s\t%s\n" $m $prop "${rc:-timeout}" $eng "${rule:-none}" >> $out
done
