#!/bin/bash
# usage: confirm_mutant.sh <PROP> <a|b>
# Confirms a seeded change in its scratch worktree /tmp/wt-<PROP>: patch applies, pinned suite passes,
# demo fails with the change and passes without it. On success stores it under /verif/seeded/<PROP>-<x>/.
prop="$1"; x="$2"; wt=${WT_PREFIX:-/tmp/wt-}$prop; out=$wt/_out; name=${3:-$x}
cd $wt || exit 2
git checkout -q -- . && git clean -qfd -e _out -e target
cmd=$(python3 -c "
import json,re
c=json.load(open('$out/$x.meta.json'))['demo_cmd']
m=re.search(r'cargo test[^()\n;&|]*', c)
print(m.group(0).strip().rstrip('.,'))")
log=$out/$x.confirm.log; : > $log
git apply $out/$x.patch.diff || { echo "$prop-$x: PATCH DOES NOT APPLY"; exit 1; }
echo "## pinned suite with change" >> $log
timeout 900 cargo test --workspace --no-fail-fast --offline >> $log 2>&1; suite=$?
pinned=$(grep -c "test result: ok. 30 passed" $log)
mkdir -p tests; cp $out/$x.demo.rs tests/demo_$x.rs
echo "## demo with change: $cmd" >> $log
timeout 600 bash -c "$cmd" >> $log 2>&1; with=$?
git apply -R $out/$x.patch.diff
echo "## demo without change" >> $log
timeout 900 bash -c "$cmd" >> $log 2>&1; without=$?
rm -f tests/demo_$x.rs; rmdir tests 2>/dev/null
git checkout -q -- . ; git clean -qfd -e _out -e target
if [ $suite -eq 0 ] && [ $pinned -ge 1 ] && [ $with -ne 0 ] && [ $without -eq 0 ]; then
  d=/verif/seeded/$prop-$name; mkdir -p $d
  cp $out/$x.patch.diff $d/patch.diff; cp $out/$x.demo.rs $d/demo.rs
  python3 - <<PY
import json
m=json.load(open('$out/$x.meta.json'))
m['confirmed_by_me']={'worktree':'$wt (scratch, removed afterwards)','pinned_suite_with_change':'30 passed (exit $suite)','demo_with_change_exit':$with,'demo_without_change_exit':$without,'demo_cmd_run':'''$cmd'''}
json.dump(m,open('$d/meta.json','w'),indent=1)
PY
  echo "$prop-$name: CONFIRMED (suite ok, demo fails with [$with], passes without)"
else
  echo "$prop-$name: NOT CONFIRMED suite=$suite pinned=$pinned with=$with without=$without (see $log)"
fi
