#!/bin/sh
# usage: try_mutant.sh <patch.diff> <PROP> [tier]   -- applies a seeded change to /repo, runs the check, reverts.
patch="$1"; prop="$2"; tier="${3:-quick}"
cd /repo || exit 2
git diff --quiet || { echo "/repo is dirty"; exit 2; }
git apply "$patch" || { echo "patch does not apply"; exit 2; }
cd /verif
./check "$prop" --tier "$tier" > /tmp/try_mutant.out 2>&1; rc=$?
git -C /repo checkout -- .
grep -E "VIOLATION|rule=|KNOWN|HARNESS-ERROR|error(\[|:)" /tmp/try_mutant.out | head -8
echo "exit=$rc"
rm -f /verif/replays/*.json
