#!/bin/sh
# usage: try_mutant.sh <patch.diff | -> <PROP> [tier]      ("-": no change, only TRY_BASE_PATCH if set)
# Runs a check against a seeded change WITHOUT touching /repo: a scratch copy of /repo's working tree gets the patch and
# is bind-mounted over /repo inside a private mount namespace; build output, evidence and replay files of the trial go
# to a scratch directory (VERIF_TARGET_DIR / VERIF_OUT_DIR), so /verif's own evidence and build stay as they are.
patch="$1"; prop="$2"; tier="${3:-quick}"
S="${TRY_SCRATCH:-/tmp/try-mutant}"
mkdir -p "$S/target" "$S/out"
rm -rf "$S/repo" "$S/out/replays" "$S/out/evidence"
rsync -a --exclude target --exclude .git /repo/ "$S/repo/" || exit 2
( cd "$S/repo" && git init -q . 2>/dev/null
  # TRY_BASE_PATCH: a patch that is part of the base (e.g. a repair not yet committed in /repo)
  if [ -n "$TRY_BASE_PATCH" ]; then git -C "$S/repo" apply "$TRY_BASE_PATCH" || exit 1; fi
  [ "$patch" = "-" ] || git -C "$S/repo" apply "$patch" ) || { echo "patch does not apply"; exit 2; }
rm -rf "$S/repo/.git"
unshare -m sh -c "mount --bind '$S/repo' /repo && cd /verif && VERIF_TARGET_DIR='$S/target' VERIF_OUT_DIR='$S/out' ./check '$prop' --tier '$tier'" > "$S/out.log" 2>&1; rc=$?
grep -E "VIOLATION|rule=|KNOWN|HARNESS-ERROR|error(\[|:)" "$S/out.log" | head -${TRY_LINES:-8}
echo "exit=$rc"
