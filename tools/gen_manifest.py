#!/usr/bin/env python3
"""Regenerates /verif/MANIFEST.json from the table below (kept valid at all times)."""
import json, subprocess, os
V = os.path.dirname(os.path.dirname(os.path.abspath(__file__)))
props = [json.loads(l) for l in open(os.path.join(V, "properties.jsonl"))]

# id -> (level, technique, level text, level note, design ref)
CLAIMED = {
 "C16": ("exploration", "deterministic simulation: seeded schedules of clone/read/move/drop across threads (detsim, accounting allocator) + Miri seeded scheduler (UB, data race, leak oracle)",
         "Seeded search over interleavings of 2-4 threads cloning, reading, moving and dropping clones of one buffer built through every constructor path, with scheduling points in front of the refcount operations; oracles: byte-exact content through every clone, accounting allocator (every block freed once with the layout it was allocated with, nothing live at the end). The Miri engine runs the same kernel on real atomics with UB/data-race/leak detection. Sampling, not proof.",
         "Engine A is sequentially consistent; wrong memory orderings are only visible to Miri. UTF-8/Eq/Ord/Hash clauses are pure functions of generated data (exercised, not decided by scheduling).", "DESIGN.md §7 C16"),
 "C17": ("exploration", "deterministic simulation: seeded schedules of racing initialisers with Ok/Err/panic outcomes (detsim, OnceCell model, drop ledger) + Miri seeded scheduler with the real once_cell",
         "Seeded search over interleavings of 1-4 threads calling get / get_or_init / get_or_try_init with generated initialiser outcomes (success, error, panic) on cells whose seed has a destructor, none, a panicking one, or is zero-sized; oracles: mutual exclusion and once-only success, same reference for all callers, seed identity and liveness across failures, get never blocks, exactly one of seed/value live, each dropped once. Sampling, not proof.",
         "Under engine A once_cell::sync::OnceCell is a model (blocking initialisers, reset on failure); the Miri engine uses the real crate.", "DESIGN.md §7 C17"),
 "C18": ("exploration", "deterministic simulation: seeded schedules of racing update/fetch_max/swap callers (detsim) + Miri seeded scheduler; linearizability check against a max-register model",
         "Seeded search over interleavings of 2-4 threads operating on one AtomicReloadId, with a scheduling point in front of every atomic operation; each history is checked for linearizability against the sequential max model, plus the direct statements (final = max offered, one `true` per distinct growth). Sampling, not proof.",
         "Engine A is sequentially consistent and treats each atomic RMW as indivisible; non-atomic replacements and weak-memory effects are only visible to the Miri engine. ReloadId values are forged through a layout-checked transmute.", "DESIGN.md §7 C18"),
}
NOT_YET = "check not built yet in this session; design in DESIGN.md §7 (simulation applies)"

hooks = subprocess.check_output(["git", "-C", "/repo", "log", "--format=%H %s", "--reverse"], text=True).splitlines()
hook_commits = [l.split()[0] for l in hooks if "verif hook" in l]
m = {
 "version": 1,
 "setup_cmd": "./setup.sh",
 "hooks": {
  "guard": "--cfg assets_manager_verif",
  "enable": "RUSTFLAGS=--cfg assets_manager_verif (set in /verif/sim/.cargo/config.toml); the library is compiled from /repo/src through the shadow manifest /verif/sim/shadow/Cargo.toml against the simulator's shim crates",
  "baseline_off_cmd": "cd /repo && cargo test --workspace --no-fail-fast --offline",
  "source_commits": hook_commits,
  "add_only": True,
 },
 "engines": [
  {"name": "detsim (engine A)", "path": "sim/", "serves_properties": sorted(CLAIMED), "kind_free_text": "seeded cooperative scheduler over real OS threads (one baton), simulated locks / condvars / channels / once-cell / notify back-end, in-memory faultable Source and Read seams; one seed = one exactly repeatable run; tape replay; joint minimisation of workload, faults and schedule"},
  {"name": "miri (engine B)", "path": "miri/", "serves_properties": [p for p in ("C16", "C17", "C18") if p in CLAIMED], "kind_free_text": "Miri's seeded scheduler (-Zmiri-seed, preemption rate) over the real atomics / once_cell, with UB, data-race and leak detection as oracle"},
 ],
 "checks": [],
 "notes": "./check <ID> --tier quick|thorough ; ./check <ID> --replay <file>. Exit 0 held / 1 VIOLATION / 2 harness error (never a verdict). Default VERIF_SEED=20260927.",
 "not_applicable": [],
}
for p in props:
    i = p["id"]
    if i in CLAIMED:
        lvl, tech, text, note, ref = CLAIMED[i]
        m["checks"].append({
         "property_id": i,
         "quick_cmd": f"./check {i} --tier quick",
         "thorough_cmd": f"./check {i} --tier thorough",
         "evidence_file": f"/verif/evidence/{i}.json",
         "replay_cmd_template": f"./check {i} --replay {{path}}",
         "engine": "detsim (engine A)" + (" + miri (engine B)" if i in ("C16", "C17", "C18") else ""),
         "level_claimed": {"category": lvl, "text": text, "design_ref": ref},
         "level_note": note,
         "technique": tech,
        })
    else:
        m["not_applicable"].append({"property_id": i, "reason": NOT_YET})
json.dump(m, open(os.path.join(V, "MANIFEST.json"), "w"), indent=1)
print("claimed:", sorted(CLAIMED), "unclaimed:", len(m["not_applicable"]))
