#!/usr/bin/env python3
"""Regenerates /verif/MANIFEST.json from the table below (kept valid at all times)."""
import json, subprocess, os
V = os.path.dirname(os.path.dirname(os.path.abspath(__file__)))
props = [json.loads(l) for l in open(os.path.join(V, "properties.jsonl"))]

# id -> (level, technique, level text, level note, design ref)
CLAIMED = {
 "C12": ("exploration", "deterministic simulation: the real FsWatcherBuilder -> handler -> id_of_path -> EventSender chain driven by a stub notify back-end on a simulated watcher thread, with real create/write/rename/delete histories on a scratch directory and synthetic notifications of every kind, 1-2 (nested) roots, relative path components, paths outside the roots and invalid names; events read from a probe (hook H7) and compared with the property's table; one run in four is end to end instead (real AssetCache over the directory, real operations, delivered notifications, hot_reload, cached file and directory assets compared with the directory)",
         "Seeded search over trees, operation histories, notification kinds and path forms; for every delivered notification the events on the probe must be exactly the entries the property's table names (entry under every root that contains it; plus parent for create / rename / delete; nothing for Access / Other / errors / outside / invalid names / before start), the watcher must keep working afterwards, and path_of / id_of_path must round-trip. Sampling, not proof.",
         "The notify/inotify back-end is a stub that delivers the event kinds notify 6.1.1 produces on Linux; the handler and everything below it are real. Known open finding F-C12d is matched by signature.", "DESIGN.md §7 C12"),
 "C04": ("exploration", "deterministic simulation: one generated tree materialised as a real directory (FileSystem), tar and zip archives (member order permutations, with/without directory members, ./ prefix, gnu/ustar headers with long names, stored/deflated) and the embedded form (the real embed! walker run on the directory); archives behind a faultable in-memory reader (short reads, EINTR, hard errors at open time or later) and file-backed; 1-3 threads querying one source",
         "Seeded search over trees (unicode, spaces, empty extension, same stem with several extensions, file and directory sharing an id, > 100-byte paths), archive options, reader faults and schedules; every source must answer like the tree model: read = exact bytes, read_dir = each direct child exactly once with kind/id/extension, exists consistent with both, absent things not found, root included; under a hard reader error a call may fail but never answers wrongly, an error at open time fails the open. Sampling, not proof.",
         "The schedule dimension is thin (readers share nothing mutable); the decision comes mostly from generated input and the reader-fault seam. The tar/zip crates' own handling of EINTR is outside the library: such calls may fail.", "DESIGN.md §7 C04"),
 "C10": ("exploration", "deterministic simulation: histories mixing load / load_owned / remove / take / clear / get_or_insert on the same keys with edits, notifications and hot_reload passes, on every cache constructor (hot, without_hot_reloading, LocalAssetCache, source without / with failing hot-reloading support), against the map model with protected-entry bookkeeping",
         "Seeded search over histories, constructors and schedules of caller vs reloader; after every hot_reload pass each protected entry (created by get_or_insert, of an opted-out type incl. Arc-wrapped, or held by a reloader-less cache) must still hold its value with reload id NEVER; references obtained with Handle::get early must read the same value at the end. Sampling, not proof.",
         "The load/get_or_insert insertion race is C01's scenario. Known open finding F-C10a is matched by signature.", "DESIGN.md §7 C10"),
 "C13": ("exploration", "deterministic simulation: C02-style histories on all front-ends extended with reload rounds, insertion races, a guard-holding reader during passes and cache drop with queued events; drop ledger equality (alive = stored) after every operation; exhaustive wrong-type views of untyped handles",
         "Seeded search over histories and schedules with tracked values of several sizes/alignments (zero-sized, 1 byte, 64-byte aligned, heap-owning, 4 KiB): after every operation the set of live tracked values must equal the set reachable from the cache (no leak, no early drop), stored values are pinned while operations that must not drop them run, a value behind a live read guard never changes or dies during a pass, racing creators end with one stored value, everything is gone after the cache is dropped; every (stored type, requested type) pair over 21 asset types is probed through is / downcast_ref / guard downcast. Sampling, not proof.",
         "Allocation-level accounting (layout on free, raw leaks) is done for SharedBytes in C16; here the ledger works on tracked values. The Miri engine runs readers against a stream of reloads of heap values on the whole real cache (use after free, double free and leaks are its oracle).", "DESIGN.md §7 C13"),
 "C06": ("exploration", "deterministic simulation: the dependency-graph scenarios of C05 in local mode (recipe compounds, edits, duplicated/batched/unrelated/missing notifications, barriers) with the precision half of the fixpoint oracle, reload ids, ReloadWatcher / reloaded_global and a polling reader racing the reloader",
         "Seeded search over dependency graphs, edit histories and schedules; oracles: assets outside the model's reverse closure keep value and reload id, each affected asset's id grows by exactly one per pass and by zero on a failed reload, watchers and the global flag report exactly the rewrites since they were armed (and only once), un-notified edits and unrelated notifications change nothing, a reader that polls its watcher during the pass never reads a value older than the reload it was told about. Sampling, not proof.",
         "The model mirrors the dependency sets each (re)load recorded; rounds in which a reload caches a previously absent asset, or that show the known F-C05b shape, are stopped and counted.", "DESIGN.md §7 C06"),
 "C14": ("exploration", "deterministic simulation: recipes nesting load / load_owned / get_cached / directory loads / no_record / helper threads / a second cache, then single-entry edits of the entries involved; moved reload ids vs the dependency model's closure; recorder pointer sampled inside loads (hook H7)",
         "Seeded search over recipes (depth <= 3) and schedules; for each single-entry edit the set of handles whose reload id moved must equal the model's reverse closure for that entry (both directions), and inside every Compound::load the thread-local recorder is sampled: unchanged after each nested load, no_record block and caught panic, null on helper threads. Sampling, not proof.",
         "Observations made through unrecorded channels are don't-care positions of values; the model implements the recording rules stated by the property.", "DESIGN.md §7 C14"),
 "C02": ("exploration", "deterministic simulation of operation histories with interleaved source edits, executed in lock-step on AssetCache (hot), AssetCache::without_hot_reloading and LocalAssetCache (directly and through AnyCache) against an executable map/load model",
         "Seeded search over histories (1-40 operations over 6 ids x 20 asset types + 6 storable layouts: load, load_owned, get_cached, get_or_insert, contains, remove, take, clear, directory loads, recipe compounds with nested loads, failing and panicking loads) interleaved with source edits, with shard-count / hash-seed knobs; every return value and, periodically, the whole map contents are compared with the model on all three front-ends. Sampling, not proof.",
         "Sequential histories (one simulated thread per front-end plus the idle reloader); races on one key are C01's subject.", "DESIGN.md §7 C02"),
 "C03": ("exploration", "deterministic simulation of the faultable Source seam: per-extension states present / undecodable / absent / unreadable(kind), break-load-repair-load histories, nested compounds, against the executable load model",
         "Seeded search over source states and break/repair histories for 9 leaf types (0-3 extensions, with/without default_value, empty-string extension, opted-out) and compounds nested to depth 4; oracles: value and error (id, class precedence Conversion > Io(other) > Io(NotFound) > no-default, wrapping under the compound's id) equal to the load model, bytes handed to the loader identical to the stored file of the first loadable extension, nothing cached after a failure, load_expect agrees, success after repair. Sampling, not proof.",
         "Single simulated thread: the simulated part is the faultable I/O seam and the history, not interleaving.", "DESIGN.md §7 C03"),
 "C11": ("exploration", "deterministic simulation of the faultable read_dir seam over generated trees (arbitrary listing order, same stem with several extensions, file and directory sharing an id, unreadable sub-directories), and the same trees through the four real source kinds, against an independent tree model",
         "Seeded search over trees (depth <= 3), extension lists (one, several, overlapping, empty-string, Arc-wrapped), directories incl. the root and a missing one, pre-loaded subsets; oracles: Directory::ids sorted and duplicate-free and equal to the tree model, RecursiveDirectory::ids equal as a set to the union over readable sub-directories without duplicates, iter loads exactly the listed ids, iter_cached yields exactly the cached ones. Sampling, not proof.",
         "Single simulated thread; one run in eight lists the same tree through caches over the real FileSystem, Tar, Zip and Embedded sources built as in C04.", "DESIGN.md §7 C11"),
 "C07": ("exploration", "deterministic simulation: 1-4 reader threads (short reads, long-held guards, mapped guards, two-halves reads, copied(), watcher polling) against a stream of reloads, both RwLock preference policies and both lock front-ends",
         "Seeded search over interleavings of readers and the reloader around the per-entry RwLock; oracles: self-checking values (no mixture), value / reload id / liveness constant while a guard is alive, hot_reload returns only when the notified content is installed, every creation/drop performed by the reloader lies inside a hot_reload call (ledger sequence numbers), nothing moves at quiescence, watcher polling never reads an older value than the reported reload. Sampling, not proof.",
         "swap_any has no scheduling point inside, so a lock-bypassing reader cannot observe a half-written value under engine A: engine A checks mutual exclusion at the seam (hook H8), and the Miri engine runs readers against reloads on the real locks, where such a reader is a data race.", "DESIGN.md §7 C07"),
 "C01": ("exploration", "deterministic simulation: seeded schedules of 2-4 threads racing load/get_cached/get_or_insert/contains on hot keys with filler bursts (rehash), shard/hash/lock-policy knobs; pointer identity, drop ledger, linearizability against an insert-once slot",
         "Seeded search over interleavings (random, sticky, PCT) of racing loaders and inserters on 1-3 hot keys x 3 kinds of types with unrelated insertion bursts, on 1..256 shards (incl. non-power-of-two counts), through AssetCache and AnyCache; every source read is a scheduling point so several loaders are past the miss before any inserts. Oracles: same address for every handle of a key, one winner observed by all, losers dropped, stored value never dropped while reachable (ledger), per-key history linearizable against an insert-once slot, handles re-read after bursts, remove/take/clear between phases. Sampling, not proof.",
         "Shard RwLocks are simulator models under engine A, where memory errors proper (use after free) are only seen as crashes of the worker process, confirmed and minimised in fresh processes; the Miri engine runs racing creators on the real sharded map with real locks, where a dangling handle is reported as undefined behaviour.", "DESIGN.md §7 C01"),
 "C05": ("exploration", "deterministic simulation: edits + notification faults (batched, duplicated, other thread, noise, never sent) + barriers against an executable model; plain (hot_reload) and static (enhance_hot_reloading + quiescence) modes",
         "Seeded search over edit/notification histories and schedules of caller, notifier and reloader threads; after every barrier each cached asset whose entries were notified must equal a fresh load from the current source, failed reloads keep the old value and recover later, un-notified edits change nothing. Sampling, not proof.",
         "Channels, locks and the condvar mailbox are simulator models; the source is in-memory.", "DESIGN.md §7 C05"),
 "C08": ("exploration", "deterministic simulation: 1-4 concurrent hot_reload callers x loader threads x notification bursts x cyclic look-up graphs under all wake orders and spurious wake-ups; deadlock / step-budget / crash detection and call-to-pass matching",
         "Seeded search over schedules of concurrent hot_reload callers, loaders and notifiers, with spurious condvar wake-ups and random wake orders, over dependency shapes including mutual and self look-ups. Liveness as bounded progress (deadlock = no runnable thread, with wait-for picture; step budget with fair second half); a dying worker process is confirmed and minimised in fresh processes; every call is matched injectively to an update pass that ended inside it. Sampling, not proof.",
         "Mutex/Condvar/channel/Select are simulator models of the std / parking_lot / crossbeam contracts.", "DESIGN.md §7 C08"),
 "C09": ("fault_enumeration", "deterministic simulation with exhaustive fault positions per sampled scenario: every source read index x 4 io error kinds and every loader invocation x {Err, panic}, on caller threads and on the reloader thread",
         "For each sampled scenario (nested compounds, load / load_owned / get_or_insert / edit / hot_reload) a fault-free dry run counts reads and loader invocations, then the scenario is re-run once per fault position. Oracles: error names the requested id, nothing cached by a failed call, cached values and reload ids untouched, no partially built value alive (ledger), the thread-local recorder restored (hook H7) on return and on unwind, reloads are all-or-nothing, and after repair + notification + hot_reload the cache equals the fault-free final state. Scenarios and schedules are sampled.",
         "Fault positions are exhaustive only within each sampled scenario.", "DESIGN.md §7 C09"),
 "C15": ("exploration", "deterministic simulation: create/use/drop histories of 1-4 caches over custom sources (with and without hot-reloading support, failing configuration) and FileSystem sources on the notify stub, dropped idle / after hot_reload / with queued events; quiescence observation of the reloader threads",
         "Seeded search over create/use/drop sequences and schedules; after every drop and in every quiet period the simulator waits for global quiescence: a reloader that keeps taking scheduling points is reported as a spin with the thread states; late notifications after the drop are injected too. Sampling, not proof.",
         "'No CPU' is modelled as 'blocked in the simulator'; Select::ready on a disconnected channel follows crossbeam's documented behaviour (always ready).", "DESIGN.md §7 C15"),
 "C16": ("exploration", "deterministic simulation: seeded schedules of clone/read/move/drop across threads (detsim, accounting allocator) + Miri seeded scheduler (UB, data race, leak oracle)",
         "Seeded search over interleavings of 2-4 threads cloning, reading, moving and dropping clones of one buffer built through every constructor path, with scheduling points in front of the refcount operations; oracles: byte-exact content through every clone, accounting allocator (every block freed once with the layout it was allocated with, nothing live at the end). The Miri engine runs the same kernel on real atomics with UB/data-race/leak detection. Sampling, not proof.",
         "Engine A is sequentially consistent; wrong memory orderings are only visible to Miri. UTF-8/Eq/Ord/Hash clauses are pure functions of generated data (exercised, not decided by scheduling).", "DESIGN.md §7 C16"),
 "C17": ("exploration", "deterministic simulation: seeded schedules of racing initialisers with Ok/Err/panic outcomes (detsim, OnceCell model, drop ledger) + Miri seeded scheduler with the real once_cell",
         "Seeded search over interleavings of 1-4 threads calling get / get_or_init / get_or_try_init with generated initialiser outcomes (success, error, panic) on cells whose seed has a destructor, none, a panicking one, or is zero-sized; oracles: mutual exclusion and once-only success, same reference for all callers, seed identity and liveness across failures, get never blocks, exactly one of seed/value live, each dropped once. Sampling, not proof.",
         "Under engine A once_cell::sync::OnceCell is a model (blocking initialisers, reset on failure); the Miri engine uses the real crate.", "DESIGN.md §7 C17"),
 "C18": ("exploration", "deterministic simulation: seeded schedules of racing update/fetch_max/swap callers (detsim) + Miri seeded scheduler; linearizability check against a max-register model",
         "Seeded search over interleavings of 2-4 threads operating on one AtomicReloadId, with a scheduling point in front of every atomic operation; each history is checked for linearizability against the sequential max model, plus the direct statements (final = max offered, one `true` per distinct growth). Sampling, not proof.",
         "Engine A is sequentially consistent and treats each atomic RMW as indivisible; non-atomic replacements and weak-memory effects are only visible to the Miri engine. ReloadId values are forged through a layout-checked transmute.", "DESIGN.md §7 C18"),
}
NOT_YET = "no check registered"

hooks = subprocess.check_output(["git", "-C", "/repo", "log", "--format=%H %s", "--reverse"], text=True).splitlines()
hook_commits = [l.split()[0] for l in hooks if "verif hook" in l]
m = {
 "version": 1,
 "setup_cmd": "./setup.sh",
 "hooks": {
  "guard": "--cfg assets_manager_verif",
  "enable": "RUSTFLAGS=--cfg assets_manager_verif (set in /verif/sim/.cargo/config.toml); the library is compiled from /repo/src through the shadow manifest /verif/sim/shadow/Cargo.toml against the simulator's shim crates",
  "baseline_off_cmd": "cd /repo && cargo test --workspace --no-fail-fast --offline",
  "source_commits": hook_commits,
  "add_only": True,
 },
 "engines": [
  {"name": "detsim (engine A)", "path": "sim/", "serves_properties": sorted(CLAIMED), "kind_free_text": "seeded cooperative scheduler over real OS threads (one baton), simulated locks / condvars / channels / once-cell / notify back-end, in-memory faultable Source and Read seams; one seed = one exactly repeatable run; tape replay; joint minimisation of workload, faults and schedule"},
  {"name": "miri (engine B)", "path": "miri/", "serves_properties": [p for p in ("C01", "C07", "C13", "C16", "C17", "C18") if p in CLAIMED], "kind_free_text": "Miri's seeded scheduler (-Zmiri-seed, preemption rate) over the real atomics / once_cell, with UB, data-race and leak detection as oracle"},
 ],
 "checks": [],
 "notes": "./check <ID> --tier quick|thorough ; ./check <ID> --replay <file>. Exit 0 held / 1 VIOLATION / 2 harness error (never a verdict). Default VERIF_SEED=20260927.",
 "not_applicable": [],
}
for p in props:
    i = p["id"]
    if i in CLAIMED:
        lvl, tech, text, note, ref = CLAIMED[i]
        m["checks"].append({
         "property_id": i,
         "quick_cmd": f"./check {i} --tier quick",
         "thorough_cmd": f"./check {i} --tier thorough",
         "evidence_file": f"/verif/evidence/{i}.json",
         "replay_cmd_template": f"./check {i} --replay {{path}}",
         "engine": "detsim (engine A)" + (" + miri (engine B)" if i in ("C01", "C07", "C13", "C16", "C17", "C18") else ""),
         "level_claimed": {"category": lvl, "text": text, "design_ref": ref},
         "level_note": note,
         "technique": tech,
        })
    else:
        m["not_applicable"].append({"property_id": i, "reason": NOT_YET})
json.dump(m, open(os.path.join(V, "MANIFEST.json"), "w"), indent=1)
print("claimed:", sorted(CLAIMED), "unclaimed:", len(m["not_applicable"]))
